"""C13 (thin): interactive evaluation equals batch evaluation - the two
structural clauses that make a rejected form harmless.

U1  in the per-step front end, every way out that is taken because an error
    was counted after scope binding undoes the binder's state in loop mode;
U2  each iteration of the interactive loops finishes and re-opens the message
    system (so one form's errors do not gate the next form's back end) and
    re-arms the recovery jump before evaluating.
"""
import os
import re
from . import common, gates
from .common import AnalysisBroken, strip, const_value, enum_name, walk, calls, render

EXPLANATION = (
    "U1: in the CFG of compFileFront, from the failing edge (error count non-zero) of every error test that is reachable "
    "after the call of compPhaseScoBind, every path to the function's exit under the assumption fintMode == FINT_LOOP calls "
    "scoSetUndoState(). U2: in compGLoopEval and compInteractiveLoop, on every CFG path from one call of compFileFront to "
    "the next (around the loop) comsgFini() and then comsgInit() are called and setjmp on compFintJmpBuf is re-armed; the "
    "path from the function entry to the first compFileFront also passes comsgInit() and the setjmp. "
    "U3: in compFileFront every CFG path from the passing edge of the compIsMoreAfterSyntax() test to the function's exit calls "
    "compPhaseScoBind (the binder's entry applies the pending roll-back of a rejected step; the flag scoUndoState has the single "
    "setter scoSetUndoState). U4: scanIsContinued's character switches inside and outside a string literal both have a case for the "
    "scanner's ESC_CHAR that sets sawEscape, and a case for the double quote. U6: adding a meaning to a symbol-table entry (stab.c) is preceded on every path by stabEntryClearCache; the undo of a rejected step (scoUndoStabEntry) filters every place of struct stabEntry that holds meanings (all slots symev[0..argc) and pending) with one predicate and resets possv[0..argc). Not decided: equality of interactive and batch output; the rest of the symbol-table state after the undo.")

ERR = [("call", "comsgErrorCount", False)]


def is_call(name):
    return lambda n: n["k"] == "CallExpr" and n.get("callee") == name


def u1(rep, f):
    fn = f.func("compFileFront")
    cfg = common.CFG(fn)
    sb = cfg.events(is_call("compPhaseScoBind"))
    if len(sb) != 1:
        raise AnalysisBroken("compFileFront: expected one call of compPhaseScoBind, found %d" % len(sb))
    b0, j0, _ = sb[0]
    # blocks reachable from the binder call
    seen, st = set(), [b0]
    while st:
        b = st.pop()
        if b in seen:
            continue
        seen.add(b)
        st.extend(cfg.succ[b])
    _, failing = gates.passing_edges(cfg, ERR + [("call", "compIsMoreAfterSyntax", True)])

    def loop_mode_only(bid, succ):
        ce = cfg.cond_edges(bid)
        if ce is None or ce[0] is None:
            return True
        c = strip(ce[0])
        if c is not None and c["k"] == "BinaryOperator" and c["op"] == "==":
            a, b = strip(c["c"][0]), c["c"][1]
            if a is not None and a.get("n") != "fintMode" and strip(b) is not None and strip(b).get("n") == "fintMode":
                a, b = strip(b), c["c"][0]          # FINT_LOOP == fintMode
            bs = strip(b)
            is_loop = enum_name(b) == "FINT_LOOP" or (bs is not None and "FINT_LOOP" in (bs.get("mac"), bs.get("imac")))
            if a is not None and a.get("n") == "fintMode" and is_loop:
                return succ == ce[1]          # assume loop mode: only the true edge
        return True

    n = 0
    for (bid, succ) in sorted(failing):
        if bid not in seen or bid == b0 and False:
            continue
        # only tests evaluated after the binder ran
        if bid == b0:
            idx = [i for i, e in enumerate(cfg.elems(bid)) if e["k"] == "CallExpr" and e.get("callee") == "comsgErrorCount"]
            if not idx or idx[0] < j0:
                continue
        n += 1
        cond = cfg.cond_edges(bid)[0]
        key = "undo-after-error@test%d" % n
        p = cfg.path_avoiding(succ, None, is_call("scoSetUndoState"), src_idx=-1, edge_ok=loop_mode_only)
        where = "axlcomp.c:%d (compFileFront)" % cond["l"]
        if p is not None:
            rep.violation("U1", key, where,
                          "after scope binding, the exit taken when this error test fails does not call scoSetUndoState() in "
                          "loop mode: the rejected form's bindings stay in the session", detail={"cfg_path": p[:12]})
        else:
            rep.ok("U1", key, sample={"test": where, "rule": "failing edge -> exit passes scoSetUndoState() when fintMode == FINT_LOOP"})
    rep.floor("error tests after scope binding", n, 2)


def u3(rep, f):
    """Every step that passes the syntax gate reaches the binder (whose entry applies the pending roll-back)."""
    fn = f.func("compFileFront")
    cfg = common.CFG(fn)
    gate = [("call", "compIsMoreAfterSyntax", True)]
    passing, _ = gates.passing_edges(cfg, gate)
    if not passing:
        raise AnalysisBroken("compFileFront: the test of compIsMoreAfterSyntax() was not found")
    n = 0
    for (bid, succ) in sorted(passing):
        n += 1
        cond = cfg.cond_edges(bid)[0]
        where = "axlcomp.c:%d (compFileFront)" % cond["l"]
        key = "binder-reached-after-syntax-gate@%d" % n
        p = cfg.path_avoiding(succ, None, is_call("compPhaseScoBind"), src_idx=-1)
        if p is not None:
            rep.violation("U3", key, where,
                          "a path leaves compFileFront after the syntax gate passed without calling compPhaseScoBind: the binder's "
                          "entry is where the roll-back of a previously rejected interactive step is applied (scoUndoState), so a "
                          "step that skips it leaves the rejected step's bindings in the session for the following steps",
                          detail={"cfg_path": p[:12]})
        else:
            rep.ok("U3", key, sample={"gate": where, "rule": "passing edge -> exit always passes compPhaseScoBind()"})
    rep.floor("syntax-gate tests in compFileFront", n, 1)
    # the binder applies the pending roll-back: scoUndoState is read in the binder's unit and only set by scoSetUndoState
    fs = common.extract("scobind.c", all_trees=True)
    readers = set()
    writers = {}
    for name, g in fs.funcs.items():
        if "body" not in g or not g.get("file", "").endswith("scobind.c"):
            continue
        for x in common.walk(g["body"]):
            if x["k"] == "BinaryOperator" and x["op"] == "=" and strip(x["c"][0]) is not None and strip(x["c"][0]).get("n") == "scoUndoState":
                writers.setdefault(name, []).append(const_value(x["c"][1]))
            elif x["k"] == "DeclRefExpr" and x["n"] == "scoUndoState":
                readers.add(name)
    setters = sorted(nm for nm, vs in writers.items() if any(v not in (0,) for v in vs))
    if setters == ["scoSetUndoState"]:
        rep.ok("U3", "undo-flag-single-setter")
    else:
        rep.violation("U3", "undo-flag-single-setter", "scobind.c", "scoUndoState is set by %s; expected scoSetUndoState only" % setters)


def u4(rep):
    """The continuation detector of the interactive loop tracks string literals the way the scanner does: inside and outside a
    string the escape character makes the next character ordinary."""
    f = common.extract("scan.c", trees=["scanIsContinued"])
    fn = f.func("scanIsContinued")
    esc = None
    md = common.macro_defs(os.path.join(common.SRC, "scan.c")) if hasattr(common, "macro_defs") else {}
    # the scanner's escape character: #define ESC_CHAR '_'
    for line in open(os.path.join(common.SRC, "scan.c"), errors="replace"):
        m = re.match(r"#\s*define\s+ESC_CHAR\s+'(.)'", line)
        if m:
            esc = ord(m.group(1))
    if esc is None:
        raise AnalysisBroken("scan.c: ESC_CHAR not found")
    # the branch taken while inside a string literal, and the branch for ordinary text (its else)
    branch = None
    for x in common.walk(fn["body"]):
        if x["k"] == "IfStmt" and strip(x["c"][0]) is not None and strip(x["c"][0]).get("n") == "inStringLiteral":
            branch = x
    if branch is None or branch["c"][2] is None:
        raise AnalysisBroken("scanIsContinued: `else if (inStringLiteral) ... else ...` not found")

    def chars_and_escape(node):
        chars, sets = set(), False
        for y in common.walk(node):
            if y["k"] == "CaseStmt" and y.get("lo") is not None:
                chars.add(y["lo"])
            if y["k"] == "BinaryOperator" and y["op"] in ("==", "!="):
                v = const_value(y["c"][1])
                if v is not None and 0 < v < 256:
                    chars.add(v)
            if y["k"] == "BinaryOperator" and y["op"] == "=" and strip(y["c"][0]) is not None and \
                    strip(y["c"][0]).get("n") == "sawEscape" and const_value(y["c"][1]) == 1:
                sets = True
        return chars, sets
    for where_, node in (("in-string", branch["c"][1]), ("out-of-string", branch["c"][2])):
        chars, sets = chars_and_escape(node)
        key = "continuation:%s:escape" % where_
        if ord('"') not in chars:
            raise AnalysisBroken("scanIsContinued: the %s branch does not look at the double quote" % where_)
        if esc in chars and sets:
            rep.ok("U4", key)
        else:
            rep.violation("U4", key, "scan.c:%d (scanIsContinued)" % node["l"],
                          "%s the detector does not treat ESC_CHAR ('%s') as escaping the next character: an escaped quote is taken for the "
                          "end (or start) of a string literal, the string state stays wrong for the rest of the session and following "
                          "lines are merged into one interactive step" % (where_, chr(esc)))


def is_setjmp(n):
    if n["k"] != "CallExpr":
        return False
    c = n.get("callee") or ""
    return c in ("setjmp", "_setjmp", "sigsetjmp", "__sigsetjmp")


def u2(rep, f):
    for fname in ("compGLoopEval", "compInteractiveLoop"):
        fn = f.func(fname)
        cfg = common.CFG(fn)
        ff = cfg.events(is_call("compFileFront"))
        if len(ff) != 1:
            raise AnalysisBroken("%s: expected one call of compFileFront, found %d" % (fname, len(ff)))
        b, j, node = ff[0]
        where = "axlcomp.c:%d (%s)" % (node["l"], fname)
        target = lambda n, node=node: n["id"] == node["id"]
        for what, pred in (("comsgFini", is_call("comsgFini")), ("comsgInit", is_call("comsgInit")), ("setjmp", is_setjmp)):
            key = "%s:around-loop:%s" % (fname, what)
            p = cfg.path_avoiding(b, target, pred, src_idx=j)
            if p is not None:
                rep.violation("U2", key, where,
                              "a path leads from one compFileFront() to the next without %s: %s" % (
                                  what, {"comsgFini": "the previous form's messages are never reported/reset",
                                         "comsgInit": "the error count of a rejected form keeps gating the following forms",
                                         "setjmp": "a fault while evaluating jumps to a stale context"}[what]),
                              detail={"cfg_path": p[:12]})
            else:
                rep.ok("U2", key)
        # order: Fini before Init on the way round
        fin = cfg.events(is_call("comsgFini"))
        okorder = True
        for fb, fj, fnode in fin:
            # from a comsgFini reached after compFileFront, the next compFileFront must be preceded by comsgInit
            if cfg.path_avoiding(fb, target, is_call("comsgInit"), src_idx=fj) is not None:
                okorder = False
        key = "%s:init-after-fini" % fname
        if okorder:
            rep.ok("U2", key)
        else:
            rep.violation("U2", key, where, "after comsgFini() the next form is read without comsgInit()")
        for what, pred in (("comsgInit", is_call("comsgInit")), ("setjmp", is_setjmp)):
            key = "%s:first-iteration:%s" % (fname, what)
            p = cfg.path_avoiding(cfg.entry, target, pred, src_idx=-1)
            if p is not None:
                rep.violation("U2", key, where, "the first form can be read without %s" % what)
            else:
                rep.ok("U2", key)


U8_NOT_STAMPED = {
    # containers of struct stabLevel that today's undo does not filter (observed, not decided: nothing shows they hold
    # objects of the rejected step that a later step can find)
    "children": "child tables are reached through the level's entries",
    "idsInScope": "identifiers seen, not meanings",
    "labelsInScope": "labels of the current step only",
    "extendSymes": "not filtered on today's tree",
    "exportedTypes": "not filtered on today's tree",
}
U8_FILTERED = ("tbl", "boundSymes", "tformsUsed.list", "tformsUsed.table", "tformsUnused")


def u8(rep):
    """When a step of the interactive loop is rejected, scoUndoStabLevel takes back what the step put into the file-level symbol
    table.  struct stabLevel holds its objects in several containers, and tformsUsed holds the same records twice (a list, and
    for large levels a table used to look them up): a record left in either is found again by a later, correct step -- the
    stale TFormUses of a type first mentioned by the rejected form is reused, the import it stands for is never made, and
    correct forms are rejected.  Every container-typed field of struct stabLevel is either filtered by scoUndoStabLevel (with
    listFreeIfSat / tblRemoveIf; also through a helper of scobind.c) or listed above with the reason; the five filtered today
    stay filtered, and the two views of tformsUsed use the same predicate."""
    f = common.extract("scobind.c", all_trees=True)
    rec = f.records.get("stabLevel")
    if rec is None:
        raise AnalysisBroken("struct stabLevel not found")
    fields = []
    for nm, ty in rec["f"]:
        if ty.endswith("List") or ty == "Table":
            fields.append(nm)
        elif ty.startswith("struct (unnamed"):
            # the unnamed struct's members, from the member reads of the unit
            subs = set()
            for fn in f.funcs.values():
                if "body" in fn:
                    for x in walk(fn["body"]):
                        if x["k"] == "MemberExpr" and (strip(x["c"][0]) or {}).get("k") == "MemberExpr" and strip(x["c"][0])["n"] == nm:
                            subs.add(x["n"])
            fields += ["%s.%s" % (nm, s_) for s_ in sorted(subs)]
    for fld in U8_FILTERED:          # confirmed on today's tree; the members of the unnamed struct are only seen through their uses
        if fld not in fields:
            fields.append(fld)
    rep.floor("container fields of struct stabLevel", len(fields), 9)

    def path_of(e, param):
        e = strip(e)
        parts = []
        while e is not None and e["k"] == "MemberExpr":
            parts.append(e["n"])
            e = strip(e["c"][0])
        if e is not None and e["k"] == "DeclRefExpr" and e["n"] == param:
            return ".".join(reversed(parts))
        return None

    def filters(fname, depth=0):
        fn = f.funcs.get(fname)
        out = {}
        if fn is None or "body" not in fn or not fn.get("params"):
            return out
        param = fn["params"][0]["n"]
        for c in calls(fn["body"]):
            cal = c.get("callee")
            if cal == "tblRemoveIf" and len(c["c"]) >= 4:
                p_ = path_of(c["c"][1], param)
                if p_:
                    out[p_] = common.render(strip(c["c"][3]))
            elif cal is None or cal == "":
                # listFreeIfSat(T)(list, free, pred): a call through the list-operations table
                txt = common.render(c["c"][0])
                if "FreeIfSat" in txt and len(c["c"]) >= 4:
                    p_ = path_of(c["c"][1], param)
                    if p_:
                        out[p_] = common.render(strip(c["c"][3]))
            elif depth < 2 and cal in f.funcs and "body" in f.funcs[cal] and f.funcs[cal].get("file", "").endswith("scobind.c") and \
                    len(c["c"]) >= 2 and path_of(c["c"][1], param) == "":
                out.update(filters(cal, depth + 1))
        return out
    got = filters("scoUndoStabLevel")
    if not got:
        raise AnalysisBroken("scoUndoStabLevel: no listFreeIfSat / tblRemoveIf over the level's fields was recognised")
    for fld in fields:
        key = "undo-filters:%s" % fld
        where = "scobind.c:%d (scoUndoStabLevel)" % f.func("scoUndoStabLevel")["l"]
        if fld in got:
            rep.ok("U8", key, sample={"predicate": got[fld]})
        elif fld in U8_NOT_STAMPED:
            rep.note("U8: %s is not filtered by the undo (%s)" % (fld, U8_NOT_STAMPED[fld]))
        else:
            rep.violation("U8", key, where,
                          "the roll-back of a rejected step does not filter stabLevel.%s: what the rejected form put there stays "
                          "findable.  For tformsUsed.table: the stale record of a type first mentioned by the rejected form is "
                          "reused by the next `import from` of that type, nothing is added to the list that type inference walks, "
                          "the import silently never happens and later correct forms are rejected" % fld)
    a, b = got.get("tformsUsed.list"), got.get("tformsUsed.table")
    if a is not None and b is not None:
        strip_cast = lambda t: re.sub(r"^\([^)]*\)\s*", "", t)
        if strip_cast(a) == strip_cast(b):
            rep.ok("U8", "undo-filters:tformsUsed:one-predicate", sample={"predicate": strip_cast(a)})
        else:
            rep.violation("U8", "undo-filters:tformsUsed:one-predicate", "scobind.c (scoUndoStabLevel)",
                          "the list and the table of tformsUsed hold the same records but are filtered with different predicates "
                          "(%s, %s): a record can survive in one of them" % (a, b))


U9_UNITS = ("scobind.c", "stab.c", "tform.c", "syme.c", "sefo.c")


def u9_digest(f):
    base = f.unit.split("/")[-1]
    out = []
    for name, fn in f.funcs.items():
        if "body" not in fn or not fn.get("file", "").endswith(base):
            continue
        for x in walk(fn["body"]):
            rhs = None
            if x["k"] == "BinaryOperator" and x["op"] == "=":
                l = strip(x["c"][0])
                if l is not None and l["k"] == "MemberExpr" and l["n"] == "intStepNo":
                    rhs = x["c"][1]
            elif x["k"] == "CallExpr" and x.get("callee") == "symeSetIntStepNo" and len(x["c"]) >= 3:
                rhs = x["c"][2]
            if rhs is None:
                continue
            r = strip(rhs)
            if r is not None and r["k"] == "DeclRefExpr" and r["n"] == "intStepNo" and r.get("dk") == "var":
                kind = "current"
            elif const_value(rhs) == 0:
                kind = "zero"
            else:
                kind = "other:" + common.render(r)[:50]
            out.append((name, x["l"], kind))
    return out


def u9(rep):
    """The roll-back of a rejected step recognises what the step made by its stamp: every record the binder, the symbol table
    and the type-form and meaning constructors make is stamped `intStepNo`, the number of the step being read, and
    `isNew*` tests `stamp == intStepNo - 1`.  A stamp taken from somewhere else -- the step in which the record's *scope level*
    was made, which for the file level is 0 for ever -- makes every record of that level invisible to the roll-back: an
    identifier first mentioned in a rejected form keeps its `used before definition` mark, and the correct definition that
    follows is refused.  Every store into an `intStepNo` field (and every symeSetIntStepNo) in the binder's units stores the
    current step, or the constant 0 where a record is being detached from the session."""
    dig = common.map_units(list(U9_UNITS), u9_digest, "compiler", all_trees=True)
    n = 0
    for u in sorted(dig):
        base = u.split("/")[-1]
        for name, line, kind in dig[u]:
            n += kind != "zero"
            key = "stamped-with-the-current-step:%s:%s" % (base, name)
            if kind in ("current", "zero"):
                rep.ok("U9", key + "@%d" % line, nontrivial=(kind == "current"))
            else:
                rep.violation("U9", key, "%s:%d (%s)" % (base, line, name),
                              "the record made here is stamped with `%s`, not with the step being read: the roll-back of a "
                              "rejected step (`stamp == intStepNo - 1`) does not recognise it, so what the rejected form left in "
                              "it stays -- an identifier first used in a rejected form can never be defined in that session"
                              % kind[6:])
    rep.floor("step stamps written by the binder, the symbol table and the constructors", n, 4)


def u11(rep):
    """The type-form constructors stamp what they make with the step being read, and the roll-back of a rejected step frees
    every type form carrying that stamp.  A type form read from a library is not the step's to free: the library caches it and
    hands it out again.  tformFrBuffer therefore clears the stamp of every form it makes (`tf->intStepNo = 0`).  Without that, a
    domain whose types are first loaded during a rejected form (`l: List SingleInteger := [x, "oops"]`) has them freed by the
    roll-back, and the next form that mentions the domain faults.  In sefo.c's tformFrBuffer every result of a `tfNew*`
    constructor has its stamp set to 0 in the same block, before the block ends."""
    f = common.extract("sefo.c", all_trees=True)
    fn = f.funcs.get("tformFrBuffer")
    if fn is None or "body" not in fn:
        raise AnalysisBroken("sefo.c: tformFrBuffer not found")
    n = 0
    for blk in walk(fn["body"]):
        if blk["k"] != "CompoundStmt":
            continue
        sts = [x for x in blk["c"] if x is not None]
        for i, st in enumerate(sts):
            a = strip(st)
            if a is None or a["k"] != "BinaryOperator" or a["op"] != "=":
                continue
            l, r = strip(a["c"][0]), strip(a["c"][1])
            if l is None or l["k"] != "DeclRefExpr" or r is None or r["k"] != "CallExpr" \
                    or not (r.get("callee") or "").startswith("tfNew"):
                continue
            n += 1
            key = "library-type-form-unstamped:%s" % r["callee"]
            cleared = False
            for later in sts[i + 1:]:
                for y in walk(later):
                    if y["k"] == "BinaryOperator" and y["op"] == "=":
                        ll = strip(y["c"][0])
                        if ll is not None and ll["k"] == "MemberExpr" and ll["n"] == "intStepNo" \
                                and common.render(strip(ll["c"][0])) == l["n"] and const_value(y["c"][1]) == 0:
                            cleared = True
            if cleared:
                rep.ok("U11", key + "@%d" % st["l"])
            else:
                rep.violation("U11", key, "sefo.c:%d (tformFrBuffer)" % st["l"],
                              "the type form made by %s while reading a library keeps the stamp of the step being read (no "
                              "`%s->intStepNo = 0` follows in the block): if that step is rejected the roll-back frees the form, "
                              "which the library still caches -- the next form that uses the domain faults (first load of "
                              "`List SingleInteger` inside an ill-typed form, then any use of it)" % (r["callee"], l["n"]))
    rep.floor("type forms constructed while reading a library", n, 2)


def u12(rep):
    """The interactive loop asks on stdin (`Redefine? (y/n)`); when the forms come from a file or a pipe the input ends.  A read of
    stdin whose result is kept in a `char` cannot tell end of input from a character, and a loop `while (getchar() != '\\n')`
    never ends once the input has: a session whose last form redefines a constant spun for ever (and ignored SIGTERM).  In
    fint.c every getchar() result goes into an `int` that is compared with EOF, and every loop whose condition reads stdin
    also tests EOF."""
    f = common.extract("fint.c", all_trees=True)
    n = 0
    for name, fn in sorted(f.funcs.items()):
        if "body" not in fn or not fn.get("file", "").endswith("fint.c"):
            continue
        reads = [c for c in calls(fn["body"], "getchar")]
        if not reads:
            continue
        par = common.parents(fn["body"])

        def has_eof(e):
            return any(y.get("mac") == "EOF" or (y["k"] == "UnaryOperator" and y.get("op") == "-" and const_value(y["c"][0]) == 1)
                       or const_value(y) == -1 for y in walk(e))
        for c in reads:
            n += 1
            key = "stdin-read-sees-end-of-input:%s" % name
            where = "fint.c:%d (%s)" % (c["l"], name)
            cur, var, loopcond = c, None, None
            while cur["id"] in par:
                up = par[cur["id"]]
                if up["k"] == "BinaryOperator" and up["op"] == "=" and any(y is cur for y in walk(up["c"][1])) and var is None:
                    var = strip(up["c"][0])
                if up["k"] in ("WhileStmt", "DoStmt", "ForStmt"):
                    cond = up["c"][0] if up["k"] == "WhileStmt" else (up["c"][1] if up["k"] == "DoStmt" else up["c"][-3])
                    if cond is not None and any(y is c for y in walk(cond)):
                        loopcond = cond
                    break
                cur = up
            if var is not None and var.get("tc") in ("i8", "u8"):
                rep.violation("U12", key, where, "the character read from stdin is kept in `%s`, a char: end of input (EOF) is "
                              "indistinguishable from a character, so the question is asked again for ever when the forms come "
                              "from a file or a pipe that has ended" % render(var))
            elif loopcond is not None and not has_eof(loopcond):
                rep.violation("U12", key, where, "the loop `%s` reads stdin until a newline and does not test EOF: once the "
                              "input has ended it never terminates (a piped session whose last form redefines a constant hangs, "
                              "and not even SIGTERM ends it)" % render(loopcond)[:60])
            elif var is not None and var["k"] == "DeclRefExpr" and not any(
                    y["k"] == "BinaryOperator" and y["op"] in ("==", "!=") and has_eof(y) and
                    any(z.get("n") == var["n"] for z in walk(y)) for y in walk(fn["body"])):
                rep.violation("U12", key, where, "`%s`, read from stdin, is never compared with EOF in %s" % (var["n"], name))
            else:
                rep.ok("U12", key + "@%d" % c["l"])
    rep.floor("reads of stdin in the interpreter's dialogue", n, 2)


def u10(rep):
    """scoUndoState says `the previous step was rejected: take it back`.  scobindRestore reads it twice at the start of the next
    step -- to tell scobindRestoreIdInfo to drop the rejected step's identifier records, and to decide whether to call
    scobindUndo, which rolls the symbol table back *and clears the flag*.  The order matters: a read of the flag after the call
    that clears it always sees `false`, so the records of what the rejected form declared stay (and point at freed table
    entries): a correct definition of the same name then draws `Redefine? (y/n)`, which eats the following forms as its answer.
    In scobind.c no read of scoUndoState is reachable from a call of a function that clears it without a new assignment in
    between."""
    f = common.extract("scobind.c", all_trees=True, all_cfg=True)
    flag = "scoUndoState"
    clearers = set()
    for name, fn in f.funcs.items():
        if "body" in fn:
            ws = [x for x in walk(fn["body"]) if x["k"] == "BinaryOperator" and x["op"] == "=" and (strip(x["c"][0]) or {}).get("n") == flag]
            if ws and all(const_value(x["c"][1]) == 0 for x in ws):
                clearers.add(name)
    if not clearers:
        raise AnalysisBroken("scobind.c: no function clears scoUndoState any more")
    n = 0
    for name, fn in sorted(f.funcs.items()):
        if "body" not in fn or not fn.get("cfg") or name in clearers:
            continue
        cs = [c for c in calls(fn["body"]) if c.get("callee") in clearers]
        if not cs:
            continue
        cfg = common.CFG(fn)
        lhs = set()
        for x in walk(fn["body"]):
            if x["k"] == "BinaryOperator" and x["op"] == "=":
                l = strip(x["c"][0])
                if l is not None:
                    lhs.add(l.get("id"))
        reads = lambda e: e["k"] == "DeclRefExpr" and e["n"] == flag and e.get("id") not in lhs
        sets = lambda e: e["k"] == "BinaryOperator" and e["op"] == "=" and (strip(e["c"][0]) or {}).get("n") == flag
        for c in cs:
            ev = cfg.events(lambda e: e.get("id") == c["id"])
            if not ev:
                continue
            b, i, _ = ev[0]
            n += 1
            p = cfg.path_avoiding(b, reads, sets, src_idx=i)
            key = "flag-read-before-it-is-cleared:%s" % name
            if p is None:
                rep.ok("U10", key + "@%d" % c["l"])
            else:
                rep.violation("U10", key, "scobind.c:%d (%s)" % (c["l"], name),
                              "%s is called before a later read of %s in %s; the call clears the flag, so that read always sees "
                              "`not rejected`: the identifier records of the rejected step are kept (pointing at table entries "
                              "the roll-back has freed), and a correct re-declaration of the same name is taken for a "
                              "redefinition" % (c.get("callee"), flag, name), detail={"cfg_path": p[:10]})
    rep.floor("calls of the functions that clear scoUndoState", n, 1)


def u7(rep, f):
    """typeInferTForms() skips a symbol-table level whose `isChecked` flag is set.  The file level stays open for the whole
    interactive session, so the flag must be false again whenever a step's type inference starts -- including the step after a
    REJECTED one (otherwise the types first mentioned by the next form are never imported and a valid form is refused).  On the
    CFGs of the two loop drivers and of compFileFront: between the type-inference phase of one step and that of the next the
    store `...->isChecked = false` lies on every path -- around the driver's loop, or between compFileFront's entry and the
    phase, or between the phase and EVERY exit of compFileFront (the error exits too)."""
    def clears(n):
        if n["k"] == "BinaryOperator" and n["op"] == "=":
            l = strip(n["c"][0])
            return l is not None and l["k"] == "MemberExpr" and l["n"] == "isChecked" and const_value(n["c"][1]) == 0
        return False
    front = f.func("compFileFront")
    cf = common.CFG(front)
    ti = cf.events(is_call("compPhaseTInfer"))
    if len(ti) != 1:
        raise AnalysisBroken("compFileFront: expected one call of compPhaseTInfer, found %d" % len(ti))
    tb, tj, tnode = ti[0]
    front_pre = cf.path_avoiding(cf.entry, lambda n: n["id"] == tnode["id"], clears, src_idx=-1) is None
    front_post = cf.path_avoiding(tb, None, clears, src_idx=tj) is None
    # exits of compFileFront taken before the phase (syntax errors, ...) leave the flag as the previous step left it: they
    # are covered only by front_pre or by the driver
    for fname in ("compGLoopEval", "compInteractiveLoop"):
        fn = f.func(fname)
        cfg = common.CFG(fn)
        ff = cfg.events(is_call("compFileFront"))
        if len(ff) != 1:
            raise AnalysisBroken("%s: expected one call of compFileFront" % fname)
        b, j, node = ff[0]
        around = cfg.path_avoiding(b, lambda n, node=node: n["id"] == node["id"], clears, src_idx=j) is None
        first = cfg.path_avoiding(cfg.entry, lambda n, node=node: n["id"] == node["id"], clears, src_idx=-1) is None
        key = "%s:type-forms-rechecked-each-step" % fname
        where = "axlcomp.c:%d (%s)" % (node["l"], fname)
        if front_pre or (around and first) or (around and front_post):
            rep.ok("U7", key, sample={"in the driver loop": around, "before the phase in compFileFront": front_pre})
        elif around or front_post:
            rep.ok("U7", key, sample={"in the driver loop": around, "after the phase on every exit": front_post})
        else:
            rep.violation("U7", key, where,
                          "a path leads from the type-inference phase of one step to that of the next without `isChecked = false` "
                          "for the file level (not around the loop of %s, not before the phase in compFileFront, and not on every "
                          "exit after it -- the error exits return first): after a step rejected by type inference the next "
                          "step's type forms are not inferred, so a valid form that brings a new type is refused in the loop while "
                          "the batch compiler accepts it" % fname)


def u5(rep):
    """Undo of a rejected step in scope binding: scobindRestoreDeclInfo forgets the uses (define / assign / declare marks) that the
    rejected step left on identifiers that existed before.  A form rejected during scope binding never reaches type inference,
    so its identifier nodes carry no meaning: the predicate that selects the uses to forget must select those."""
    from .peval import peval
    f = common.extract("scobind.c", trees=["declInfoUseIsNew", "scobindRestoreDeclInfo"])
    fn = f.func("declInfoUseIsNew")
    rets = [x for x in walk(fn["body"]) if x["k"] == "ReturnStmt"]
    if len(rets) != 1 or len(fn["params"]) != 1:
        raise AnalysisBroken("declInfoUseIsNew: expected one parameter and one return")
    par = fn["params"][0]["n"]
    env_decl = {}
    for x in walk(fn["body"]):
        if x["k"] == "DeclStmt":
            for d in x.get("decls", []):
                if d.get("init") is not None:
                    env_decl[d["n"]] = d["init"]

    def lookup_for(ab, syme):
        def lookup(n, env):
            if n.get("mac") == "abSyme" and n["k"] in ("ConditionalOperator",):
                return syme
            if n["k"] == "DeclRefExpr" and n["n"] in env_decl:
                return peval(env_decl[n["n"]], env, lookup)
            if n["k"] == "CallExpr" and n.get("callee") == "isNewSyme":
                return None
            return None
        return lookup
    where = "scobind.c:%d (declInfoUseIsNew)" % fn["l"]
    v = peval(rets[0]["c"][0], {par: 1}, lookup_for(1, 0))
    if v is None:
        raise AnalysisBroken("declInfoUseIsNew: value for a use without meaning is not decided by the expression")
    if v:
        rep.ok("U5", "undo:use-without-meaning-forgotten")
    else:
        rep.violation("U5", "undo:use-without-meaning-forgotten", where,
                      "a use whose node has no meaning (abSyme == 0: the step was rejected before type inference) is not selected "
                      "for removal: after `a := 1` a rejected `a: T == 2` leaves its Define mark on `a`, and every later step fails "
                      "with 'cannot both assign and define'")
    v0 = peval(rets[0]["c"][0], {par: 0}, lookup_for(0, 0))
    if v0 == 0:
        rep.ok("U5", "undo:empty-use-kept")
    elif v0 is None:
        raise AnalysisBroken("declInfoUseIsNew: value for an empty slot is not decided")
    else:
        rep.violation("U5", "undo:empty-use-kept", where, "an empty use slot is reported as new")
    user = f.func("scobindRestoreDeclInfo")
    if calls(user["body"], "declInfoUseIsNew"):
        rep.ok("U5", "undo:predicate-used-by-restore", nontrivial=False)
    else:
        rep.violation("U5", "undo:predicate-used-by-restore", "scobind.c:%d (scobindRestoreDeclInfo)" % user["l"],
                      "the restore no longer filters the uses with declInfoUseIsNew")


def _stent_field(n):
    """X->field or X->field[i]  ->  (base text, field, index node or None)"""
    s_ = strip(n)
    idx = None
    if s_ is not None and s_["k"] == "ArraySubscriptExpr":
        idx = s_["c"][1]
        s_ = strip(s_["c"][0])
    if s_ is not None and s_["k"] == "MemberExpr":
        return common.render(strip(s_["c"][0])), s_["n"], idx
    return None, None, None


def _loop_range(node, par):
    """the enclosing `for (i = lo; i < X->argc; ...)`: (loop variable, lo) or None"""
    cur = node
    while cur["id"] in par:
        p_ = par[cur["id"]]
        if p_["k"] == "ForStmt":
            init, cond = strip(p_["c"][0]), strip(p_["c"][1] if len(p_["c"]) > 1 else None)
            if init is not None and init["k"] == "BinaryOperator" and init["op"] == "=" and cond is not None and \
                    cond["k"] == "BinaryOperator" and cond["op"] in ("<", "!="):
                v, lo = strip(init["c"][0]), const_value(init["c"][1])
                b, fld, _ = _stent_field(cond["c"][1])
                if v is not None and v["k"] == "DeclRefExpr" and lo is not None and fld == "argc" and \
                        common.render(strip(cond["c"][0])) == v["n"]:
                    return v["n"], lo
        cur = p_
    return None


def u6(rep):
    """A symbol-table entry keeps its meanings in several places (struct stabEntry: the slots symev[0..argc) and the pending
    list) and caches, per slot, the possible types computed from them (possv[0..argc)).  The interactive loop relies on two
    things. (a) Adding a meaning drops every cached answer: in stab.c each function that adds to a slot calls
    stabEntryClearCache(entry) on every path before the addition.  (b) Taking the meanings of a rejected step back
    (scobind.c:scoUndoStabEntry) removes them from EVERY place that holds them, with the same predicate, and resets the cached
    types of every slot; otherwise the next use of the name reads freed meanings or a stale answer."""
    # (a)
    fs = common.extract("stab.c", all_trees=True, all_cfg=True)
    rec = fs.records.get("stabEntry")
    if rec is None:
        raise AnalysisBroken("struct stabEntry not found")
    lists = [n for n, t in rec["f"] if "SymeList" in t]
    caches = [n for n, t in rec["f"] if "TPoss" in t]
    if sorted(lists) != ["pending", "symev"] or caches != ["possv"]:
        raise AnalysisBroken("struct stabEntry changed (meaning lists %s, caches %s): U6 must be re-derived" % (lists, caches))
    builders = ("stabEntryPutSyme", "stabEntryAddCache", "stabEntryClearCache")
    n_add = 0
    for name, fn in sorted(fs.funcs.items()):
        if "body" not in fn or not fn.get("file", "").endswith("stab.c") or name in builders:
            continue
        muts = []
        for x in walk(fn["body"]):
            if x["k"] == "CallExpr" and x.get("callee") == "stabEntryPutSyme":
                muts.append(x)
            elif x["k"] == "BinaryOperator" and x["op"] == "=":
                b, fld, idx = _stent_field(x["c"][0])
                if fld == "symev" and idx is not None:
                    muts.append(x)
        # a NEW meaning: the stored value is (built from) a Syme parameter of the function.  Moving a meaning the entry
        # already holds between its own places (pending -> slot, copy of an entry) is not an addition.
        sparams = set(p_["n"] for p_ in fn.get("params", []) if p_.get("t", "").replace(" ", "") in ("Syme", "structsyme*"))
        muts = [m for m in muts if any(y["k"] == "DeclRefExpr" and y["n"] in sparams
                                      for y in walk(m["c"][-1] if m["k"] == "CallExpr" else m["c"][1]))]
        if not muts:
            continue
        cfg = common.CFG(fn)
        for m in muts:
            n_add += 1
            key = "add-invalidates-cache:%s@%d" % (name, sum(1 for y in muts if y["l"] <= m["l"]))
            where = "stab.c:%d (%s)" % (m["l"], name)
            ev = cfg.events(lambda e, m=m: e.get("id") == m["id"])
            if not ev:
                raise AnalysisBroken("%s: the slot update at line %d is not in the CFG" % (name, m["l"]))
            p = cfg.path_avoiding(cfg.entry, lambda e, m=m: e.get("id") == m["id"], is_call("stabEntryClearCache"), src_idx=-1)
            if p is not None:
                rep.violation("U6", key, where,
                              "%s adds a meaning to a slot of the entry on a path that has not called stabEntryClearCache: the "
                              "possible types cached for the name are kept, so in the interactive loop (where binding and type "
                              "inference alternate) a later step is checked against the answer computed before the addition"
                              % name, detail={"cfg_path": p[:12]})
            else:
                rep.ok("U6", key)
    rep.floor("slot additions in stab.c", n_add, 4)
    # (b)
    f = common.extract("scobind.c", trees=["scoUndoStabEntry"])
    fn = f.func("scoUndoStabEntry")
    par = common.parents(fn["body"])
    where = "scobind.c:%d (scoUndoStabEntry)" % fn["l"]
    filt = {}          # place -> set of (predicate, lo)
    for x in walk(fn["body"]):
        if x["k"] != "BinaryOperator" or x["op"] != "=":
            continue
        cs = [c for c in calls(x["c"][1]) if (c.get("callee") or "").startswith("listFreeIfSat") or "FreeIfSat" in common.render(c)[:60]]
        if not cs:
            continue
        c = cs[0]
        pred = common.render(strip(c["c"][-1]))
        src = strip(c["c"][1])
        b, fld, idx = _stent_field(x["c"][0])
        if fld is None and src is not None and src["k"] == "DeclRefExpr":
            continue                 # nsymes = filter(osymes): resolved below through the local
        if fld == "pending":
            filt.setdefault("pending", set()).add((pred, None))
        elif fld == "symev":
            rng = _loop_range(x, par)
            if rng and common.render(strip(idx)) == rng[0]:
                filt.setdefault("symev", set()).add((pred, rng[1]))
            elif const_value(idx) is not None:
                filt.setdefault("symev", set()).add((pred, ("const", const_value(idx))))
    # symev[0] through locals: osymes = X->symev[0]; nsymes = filter(osymes, P); X->symev[0] = nsymes
    src_local, dst_local, pred0 = None, None, None
    for x in walk(fn["body"]):
        if x["k"] == "BinaryOperator" and x["op"] == "=":
            l = strip(x["c"][0])
            b, fld, idx = _stent_field(x["c"][1])
            if l is not None and l["k"] == "DeclRefExpr" and fld == "symev" and const_value(idx) == 0:
                src_local = l["n"]
    for x in walk(fn["body"]):
        if x["k"] == "BinaryOperator" and x["op"] == "=":
            l = strip(x["c"][0])
            cs = [c for c in calls(x["c"][1]) if "FreeIfSat" in common.render(c)[:60]]
            if l is not None and l["k"] == "DeclRefExpr" and cs and src_local and common.render(strip(cs[0]["c"][1])) == src_local:
                dst_local, pred0 = l["n"], common.render(strip(cs[0]["c"][-1]))
    for x in walk(fn["body"]):
        if x["k"] == "BinaryOperator" and x["op"] == "=":
            b, fld, idx = _stent_field(x["c"][0])
            r = strip(x["c"][1])
            if fld == "symev" and const_value(idx) == 0 and r is not None and r["k"] == "DeclRefExpr" and r["n"] == dst_local:
                filt.setdefault("symev", set()).add((pred0, ("const", 0)))
    if pred0 is None and not any(lo == ("const", 0) or lo == 0 for _, lo in filt.get("symev", ())):
        raise AnalysisBroken("scoUndoStabEntry: the filtering of slot 0 was not recognised")
    preds = set(p for v in filt.values() for p, _ in v)
    pred = pred0 or sorted(preds)[0]
    sym = filt.get("symev", set())
    covered_from = min([lo for p, lo in sym if isinstance(lo, int) and p == pred] or [None], key=lambda v: (v is None, v))
    has0 = any(lo == ("const", 0) and p == pred for p, lo in sym) or covered_from == 0
    all_slots = has0 and covered_from is not None and covered_from <= 1
    if all_slots:
        rep.ok("U6", "undo:every-slot-filtered", sample={"predicate": pred, "loop from": covered_from})
    else:
        rep.violation("U6", "undo:every-slot-filtered", where,
                      "scoUndoStabEntry removes the meanings of the rejected step (%s) from slot 0 only: the conditional slots "
                      "symev[1..argc) keep pointing at them, and they are freed by the undo; the next use of the name in the "
                      "interactive loop reads freed meanings (a rejected overload of f followed by f(3) ends in a segmentation "
                      "violation) while the batch compiler, which never undoes, accepts the same forms" % pred)
    if any(p == pred for p, _ in filt.get("pending", ())):
        rep.ok("U6", "undo:pending-filtered")
    else:
        rep.violation("U6", "undo:pending-filtered", where,
                      "scoUndoStabEntry does not remove the rejected step's meanings from the entry's pending list")
    resets = []
    for x in walk(fn["body"]):
        if x["k"] == "BinaryOperator" and x["op"] == "=" and const_value(x["c"][1]) == 0:
            b, fld, idx = _stent_field(x["c"][0])
            if fld == "possv":
                rng = _loop_range(x, par)
                if rng and common.render(strip(idx)) == rng[0]:
                    resets.append(rng[1])
                else:
                    resets.append(("const", const_value(idx)))
    if any(r == 0 for r in resets):
        rep.ok("U6", "undo:every-cached-answer-dropped")
    else:
        rep.violation("U6", "undo:every-cached-answer-dropped", where,
                      "scoUndoStabEntry resets the cached possible types of %s only; the answers cached for the other slots were "
                      "computed with the meanings being taken back" % (sorted(str(r) for r in resets) or "no slot"))


def run(tier, only=None):
    rep = common.Report("C13", tier, EXPLANATION)
    f = common.extract("axlcomp.c", all_cfg=True)
    u1(rep, f)
    u2(rep, f)
    u3(rep, f)
    u4(rep)
    u5(rep)
    u6(rep)
    u7(rep, f)
    u8(rep)
    u9(rep)
    u10(rep)
    u11(rep)
    u12(rep)
    rep.analysed_count("functions", 3)
    rep.assumptions.append("the CFG search is path-insensitive except for the fintMode == FINT_LOOP assumption in U1")
    return rep
