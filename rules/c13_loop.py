"""C13 (thin): interactive evaluation equals batch evaluation - the two
structural clauses that make a rejected form harmless.

U1  in the per-step front end, every way out that is taken because an error
    was counted after scope binding undoes the binder's state in loop mode;
U2  each iteration of the interactive loops finishes and re-opens the message
    system (so one form's errors do not gate the next form's back end) and
    re-arms the recovery jump before evaluating.
"""
import os
import re
from . import common, gates
from .common import AnalysisBroken, strip, const_value, enum_name, walk, calls

EXPLANATION = (
    "U1: in the CFG of compFileFront, from the failing edge (error count non-zero) of every error test that is reachable "
    "after the call of compPhaseScoBind, every path to the function's exit under the assumption fintMode == FINT_LOOP calls "
    "scoSetUndoState(). U2: in compGLoopEval and compInteractiveLoop, on every CFG path from one call of compFileFront to "
    "the next (around the loop) comsgFini() and then comsgInit() are called and setjmp on compFintJmpBuf is re-armed; the "
    "path from the function entry to the first compFileFront also passes comsgInit() and the setjmp. "
    "U3: in compFileFront every CFG path from the passing edge of the compIsMoreAfterSyntax() test to the function's exit calls "
    "compPhaseScoBind (the binder's entry applies the pending roll-back of a rejected step; the flag scoUndoState has the single "
    "setter scoSetUndoState). U4: scanIsContinued's character switches inside and outside a string literal both have a case for the "
    "scanner's ESC_CHAR that sets sawEscape, and a case for the double quote. Not decided: equality of interactive and batch output; symbol-table state after the undo.")

ERR = [("call", "comsgErrorCount", False)]


def is_call(name):
    return lambda n: n["k"] == "CallExpr" and n.get("callee") == name


def u1(rep, f):
    fn = f.func("compFileFront")
    cfg = common.CFG(fn)
    sb = cfg.events(is_call("compPhaseScoBind"))
    if len(sb) != 1:
        raise AnalysisBroken("compFileFront: expected one call of compPhaseScoBind, found %d" % len(sb))
    b0, j0, _ = sb[0]
    # blocks reachable from the binder call
    seen, st = set(), [b0]
    while st:
        b = st.pop()
        if b in seen:
            continue
        seen.add(b)
        st.extend(cfg.succ[b])
    _, failing = gates.passing_edges(cfg, ERR + [("call", "compIsMoreAfterSyntax", True)])

    def loop_mode_only(bid, succ):
        ce = cfg.cond_edges(bid)
        if ce is None or ce[0] is None:
            return True
        c = strip(ce[0])
        if c is not None and c["k"] == "BinaryOperator" and c["op"] == "==":
            a, b = strip(c["c"][0]), c["c"][1]
            if a is not None and a.get("n") != "fintMode" and strip(b) is not None and strip(b).get("n") == "fintMode":
                a, b = strip(b), c["c"][0]          # FINT_LOOP == fintMode
            bs = strip(b)
            is_loop = enum_name(b) == "FINT_LOOP" or (bs is not None and "FINT_LOOP" in (bs.get("mac"), bs.get("imac")))
            if a is not None and a.get("n") == "fintMode" and is_loop:
                return succ == ce[1]          # assume loop mode: only the true edge
        return True

    n = 0
    for (bid, succ) in sorted(failing):
        if bid not in seen or bid == b0 and False:
            continue
        # only tests evaluated after the binder ran
        if bid == b0:
            idx = [i for i, e in enumerate(cfg.elems(bid)) if e["k"] == "CallExpr" and e.get("callee") == "comsgErrorCount"]
            if not idx or idx[0] < j0:
                continue
        n += 1
        cond = cfg.cond_edges(bid)[0]
        key = "undo-after-error@test%d" % n
        p = cfg.path_avoiding(succ, None, is_call("scoSetUndoState"), src_idx=-1, edge_ok=loop_mode_only)
        where = "axlcomp.c:%d (compFileFront)" % cond["l"]
        if p is not None:
            rep.violation("U1", key, where,
                          "after scope binding, the exit taken when this error test fails does not call scoSetUndoState() in "
                          "loop mode: the rejected form's bindings stay in the session", detail={"cfg_path": p[:12]})
        else:
            rep.ok("U1", key, sample={"test": where, "rule": "failing edge -> exit passes scoSetUndoState() when fintMode == FINT_LOOP"})
    rep.floor("error tests after scope binding", n, 2)


def u3(rep, f):
    """Every step that passes the syntax gate reaches the binder (whose entry applies the pending roll-back)."""
    fn = f.func("compFileFront")
    cfg = common.CFG(fn)
    gate = [("call", "compIsMoreAfterSyntax", True)]
    passing, _ = gates.passing_edges(cfg, gate)
    if not passing:
        raise AnalysisBroken("compFileFront: the test of compIsMoreAfterSyntax() was not found")
    n = 0
    for (bid, succ) in sorted(passing):
        n += 1
        cond = cfg.cond_edges(bid)[0]
        where = "axlcomp.c:%d (compFileFront)" % cond["l"]
        key = "binder-reached-after-syntax-gate@%d" % n
        p = cfg.path_avoiding(succ, None, is_call("compPhaseScoBind"), src_idx=-1)
        if p is not None:
            rep.violation("U3", key, where,
                          "a path leaves compFileFront after the syntax gate passed without calling compPhaseScoBind: the binder's "
                          "entry is where the roll-back of a previously rejected interactive step is applied (scoUndoState), so a "
                          "step that skips it leaves the rejected step's bindings in the session for the following steps",
                          detail={"cfg_path": p[:12]})
        else:
            rep.ok("U3", key, sample={"gate": where, "rule": "passing edge -> exit always passes compPhaseScoBind()"})
    rep.floor("syntax-gate tests in compFileFront", n, 1)
    # the binder applies the pending roll-back: scoUndoState is read in the binder's unit and only set by scoSetUndoState
    fs = common.extract("scobind.c", all_trees=True)
    readers = set()
    writers = {}
    for name, g in fs.funcs.items():
        if "body" not in g or not g.get("file", "").endswith("scobind.c"):
            continue
        for x in common.walk(g["body"]):
            if x["k"] == "BinaryOperator" and x["op"] == "=" and strip(x["c"][0]) is not None and strip(x["c"][0]).get("n") == "scoUndoState":
                writers.setdefault(name, []).append(const_value(x["c"][1]))
            elif x["k"] == "DeclRefExpr" and x["n"] == "scoUndoState":
                readers.add(name)
    setters = sorted(nm for nm, vs in writers.items() if any(v not in (0,) for v in vs))
    if setters == ["scoSetUndoState"]:
        rep.ok("U3", "undo-flag-single-setter")
    else:
        rep.violation("U3", "undo-flag-single-setter", "scobind.c", "scoUndoState is set by %s; expected scoSetUndoState only" % setters)


def u4(rep):
    """The continuation detector of the interactive loop tracks string literals the way the scanner does: inside and outside a
    string the escape character makes the next character ordinary."""
    f = common.extract("scan.c", trees=["scanIsContinued"])
    fn = f.func("scanIsContinued")
    esc = None
    md = common.macro_defs(os.path.join(common.SRC, "scan.c")) if hasattr(common, "macro_defs") else {}
    # the scanner's escape character: #define ESC_CHAR '_'
    for line in open(os.path.join(common.SRC, "scan.c"), errors="replace"):
        m = re.match(r"#\s*define\s+ESC_CHAR\s+'(.)'", line)
        if m:
            esc = ord(m.group(1))
    if esc is None:
        raise AnalysisBroken("scan.c: ESC_CHAR not found")
    # the branch taken while inside a string literal, and the branch for ordinary text (its else)
    branch = None
    for x in common.walk(fn["body"]):
        if x["k"] == "IfStmt" and strip(x["c"][0]) is not None and strip(x["c"][0]).get("n") == "inStringLiteral":
            branch = x
    if branch is None or branch["c"][2] is None:
        raise AnalysisBroken("scanIsContinued: `else if (inStringLiteral) ... else ...` not found")

    def chars_and_escape(node):
        chars, sets = set(), False
        for y in common.walk(node):
            if y["k"] == "CaseStmt" and y.get("lo") is not None:
                chars.add(y["lo"])
            if y["k"] == "BinaryOperator" and y["op"] in ("==", "!="):
                v = const_value(y["c"][1])
                if v is not None and 0 < v < 256:
                    chars.add(v)
            if y["k"] == "BinaryOperator" and y["op"] == "=" and strip(y["c"][0]) is not None and \
                    strip(y["c"][0]).get("n") == "sawEscape" and const_value(y["c"][1]) == 1:
                sets = True
        return chars, sets
    for where_, node in (("in-string", branch["c"][1]), ("out-of-string", branch["c"][2])):
        chars, sets = chars_and_escape(node)
        key = "continuation:%s:escape" % where_
        if ord('"') not in chars:
            raise AnalysisBroken("scanIsContinued: the %s branch does not look at the double quote" % where_)
        if esc in chars and sets:
            rep.ok("U4", key)
        else:
            rep.violation("U4", key, "scan.c:%d (scanIsContinued)" % node["l"],
                          "%s the detector does not treat ESC_CHAR ('%s') as escaping the next character: an escaped quote is taken for the "
                          "end (or start) of a string literal, the string state stays wrong for the rest of the session and following "
                          "lines are merged into one interactive step" % (where_, chr(esc)))


def is_setjmp(n):
    if n["k"] != "CallExpr":
        return False
    c = n.get("callee") or ""
    return c in ("setjmp", "_setjmp", "sigsetjmp", "__sigsetjmp")


def u2(rep, f):
    for fname in ("compGLoopEval", "compInteractiveLoop"):
        fn = f.func(fname)
        cfg = common.CFG(fn)
        ff = cfg.events(is_call("compFileFront"))
        if len(ff) != 1:
            raise AnalysisBroken("%s: expected one call of compFileFront, found %d" % (fname, len(ff)))
        b, j, node = ff[0]
        where = "axlcomp.c:%d (%s)" % (node["l"], fname)
        target = lambda n, node=node: n["id"] == node["id"]
        for what, pred in (("comsgFini", is_call("comsgFini")), ("comsgInit", is_call("comsgInit")), ("setjmp", is_setjmp)):
            key = "%s:around-loop:%s" % (fname, what)
            p = cfg.path_avoiding(b, target, pred, src_idx=j)
            if p is not None:
                rep.violation("U2", key, where,
                              "a path leads from one compFileFront() to the next without %s: %s" % (
                                  what, {"comsgFini": "the previous form's messages are never reported/reset",
                                         "comsgInit": "the error count of a rejected form keeps gating the following forms",
                                         "setjmp": "a fault while evaluating jumps to a stale context"}[what]),
                              detail={"cfg_path": p[:12]})
            else:
                rep.ok("U2", key)
        # order: Fini before Init on the way round
        fin = cfg.events(is_call("comsgFini"))
        okorder = True
        for fb, fj, fnode in fin:
            # from a comsgFini reached after compFileFront, the next compFileFront must be preceded by comsgInit
            if cfg.path_avoiding(fb, target, is_call("comsgInit"), src_idx=fj) is not None:
                okorder = False
        key = "%s:init-after-fini" % fname
        if okorder:
            rep.ok("U2", key)
        else:
            rep.violation("U2", key, where, "after comsgFini() the next form is read without comsgInit()")
        for what, pred in (("comsgInit", is_call("comsgInit")), ("setjmp", is_setjmp)):
            key = "%s:first-iteration:%s" % (fname, what)
            p = cfg.path_avoiding(cfg.entry, target, pred, src_idx=-1)
            if p is not None:
                rep.violation("U2", key, where, "the first form can be read without %s" % what)
            else:
                rep.ok("U2", key)


def u5(rep):
    """Undo of a rejected step in scope binding: scobindRestoreDeclInfo forgets the uses (define / assign / declare marks) that the
    rejected step left on identifiers that existed before.  A form rejected during scope binding never reaches type inference,
    so its identifier nodes carry no meaning: the predicate that selects the uses to forget must select those."""
    from .peval import peval
    f = common.extract("scobind.c", trees=["declInfoUseIsNew", "scobindRestoreDeclInfo"])
    fn = f.func("declInfoUseIsNew")
    rets = [x for x in walk(fn["body"]) if x["k"] == "ReturnStmt"]
    if len(rets) != 1 or len(fn["params"]) != 1:
        raise AnalysisBroken("declInfoUseIsNew: expected one parameter and one return")
    par = fn["params"][0]["n"]
    env_decl = {}
    for x in walk(fn["body"]):
        if x["k"] == "DeclStmt":
            for d in x.get("decls", []):
                if d.get("init") is not None:
                    env_decl[d["n"]] = d["init"]

    def lookup_for(ab, syme):
        def lookup(n, env):
            if n.get("mac") == "abSyme" and n["k"] in ("ConditionalOperator",):
                return syme
            if n["k"] == "DeclRefExpr" and n["n"] in env_decl:
                return peval(env_decl[n["n"]], env, lookup)
            if n["k"] == "CallExpr" and n.get("callee") == "isNewSyme":
                return None
            return None
        return lookup
    where = "scobind.c:%d (declInfoUseIsNew)" % fn["l"]
    v = peval(rets[0]["c"][0], {par: 1}, lookup_for(1, 0))
    if v is None:
        raise AnalysisBroken("declInfoUseIsNew: value for a use without meaning is not decided by the expression")
    if v:
        rep.ok("U5", "undo:use-without-meaning-forgotten")
    else:
        rep.violation("U5", "undo:use-without-meaning-forgotten", where,
                      "a use whose node has no meaning (abSyme == 0: the step was rejected before type inference) is not selected "
                      "for removal: after `a := 1` a rejected `a: T == 2` leaves its Define mark on `a`, and every later step fails "
                      "with 'cannot both assign and define'")
    v0 = peval(rets[0]["c"][0], {par: 0}, lookup_for(0, 0))
    if v0 == 0:
        rep.ok("U5", "undo:empty-use-kept")
    elif v0 is None:
        raise AnalysisBroken("declInfoUseIsNew: value for an empty slot is not decided")
    else:
        rep.violation("U5", "undo:empty-use-kept", where, "an empty use slot is reported as new")
    user = f.func("scobindRestoreDeclInfo")
    if calls(user["body"], "declInfoUseIsNew"):
        rep.ok("U5", "undo:predicate-used-by-restore", nontrivial=False)
    else:
        rep.violation("U5", "undo:predicate-used-by-restore", "scobind.c:%d (scobindRestoreDeclInfo)" % user["l"],
                      "the restore no longer filters the uses with declInfoUseIsNew")


def run(tier, only=None):
    rep = common.Report("C13", tier, EXPLANATION)
    f = common.extract("axlcomp.c", all_cfg=True)
    u1(rep, f)
    u2(rep, f)
    u3(rep, f)
    u4(rep)
    u5(rep)
    rep.analysed_count("functions", 3)
    rep.assumptions.append("the CFG search is path-insensitive except for the fintMode == FINT_LOOP assumption in U1")
    return rep
