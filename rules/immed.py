"""bintSmall(b) is only meaningful for an immediate big integer.

A BInt is either an immediate (the value, shifted, in the pointer word: up to
INT_LG_IMMED = 62 bits) or a pointer to a digit vector.  bintSmall(b) is
`BIntToInt(b)`: it shifts the word right by one whatever it is, so for a stored
big integer it returns half the object's address.  Every use of its value must
therefore be reached only when b is known to be immediate.  Accepted proofs, on
the same operand expression, in an enclosing `if`, an earlier conjunct of the
same `&&` chain, or an `assert` earlier in the block:
  * bintIsSmall(b)                      (5 of the 6 sites in the tree)
  * bintLT(bintAbs(b), bintNew(K))      with K <= 2^62   (values that small are always immediate: results are normalised)
  * bintLength(b) < K  /  <= K          with at most 62 bits
"""
from . import common
from .common import walk, strip, render, const_value, calls

IMMED_BITS = 62


def _same(a, b):
    return render(strip(a)) == render(strip(b))


def _proves(cond, operand):
    """does `cond` (when true) imply that `operand` is immediate?  returns (True, None) / (False, reason or None)"""
    why = None
    for y in walk(cond):
        if y["k"] == "CallExpr" and y.get("callee") == "bintIsSmall" and _same(y["c"][1], operand):
            return True, None
        if y["k"] == "CallExpr" and y.get("callee") == "bintLT" and len(y["c"]) >= 3:
            a, b = strip(y["c"][1]), strip(y["c"][2])
            if a is not None and a["k"] == "CallExpr" and a.get("callee") == "bintAbs" and _same(a["c"][1], operand) and \
                    b is not None and b["k"] == "CallExpr" and b.get("callee") == "bintNew":
                k = const_value(b["c"][1])
                if k is not None and 0 < k <= (1 << IMMED_BITS):
                    return True, None
                why = "|b| < %s does not bound b below 2^%d" % (k, IMMED_BITS)
        if y["k"] == "BinaryOperator" and y["op"] in ("<", "<="):
            l = strip(y["c"][0])
            if l is not None and l["k"] == "CallExpr" and l.get("callee") == "bintLength" and _same(l["c"][1], operand):
                k = const_value(y["c"][1])
                if k is not None:
                    bits = k - 1 if y["op"] == "<" else k
                    if bits <= IMMED_BITS:
                        return True, None
                    why = "a length of up to %d bits includes stored big integers (immediates have at most %d)" % (bits, IMMED_BITS)
    return False, why


def digest(f):
    base = f.unit.split("/")[-1]
    out = []
    for name, fn in f.funcs.items():
        if "body" not in fn or not fn.get("file", "").endswith(base) or name in ("bintSmall",):
            continue
        cs = [c for c in calls(fn["body"], "bintSmall")]
        if not cs:
            continue
        par = common.parents(fn["body"])
        for c in cs:
            operand = c["c"][1]
            # a use as a truth value in a condition is not a use of the value
            p_ = par.get(c["id"])
            while p_ is not None and p_["k"] in ("ParenExpr", "ImplicitCastExpr", "CStyleCastExpr"):
                p_ = par.get(p_["id"])
            proved, why = False, None
            cur = c
            truth_only = False
            while cur["id"] in par and not proved:
                p_ = par[cur["id"]]
                if p_["k"] == "BinaryOperator" and p_["op"] == "&&":
                    if any(y is cur for y in walk(p_["c"][1])):
                        ok, w = _proves(p_["c"][0], operand)
                        proved, why = ok, (w or why)
                    if strip(p_["c"][0]) is strip(cur) or strip(p_["c"][1]) is strip(cur) or p_["c"][0] is cur or p_["c"][1] is cur:
                        if cur is c or strip(cur) is c:
                            truth_only = True
                elif p_["k"] == "IfStmt":
                    if any(y is cur for y in walk(p_["c"][1])):
                        ok, w = _proves(p_["c"][0], operand)
                        proved, why = ok, (w or why)
                    elif len(p_["c"]) > 2 and p_["c"][2] is not None and any(y is cur for y in walk(p_["c"][2])):
                        # else-branch of `if (!proof)`
                        c0 = strip(p_["c"][0])
                        if c0 is not None and c0["k"] == "UnaryOperator" and c0["op"] == "!":
                            ok, w = _proves(c0["c"][0], operand)
                            proved, why = ok, (w or why)
                        elif c0 is not None and c0["k"] == "BinaryOperator" and c0["op"] == "==" and const_value(c0["c"][1]) == 0:
                            ok, w = _proves(c0["c"][0], operand)
                            proved, why = ok, (w or why)
                    elif p_["c"][0] is cur or any(y is cur for y in walk(p_["c"][0])):
                        if cur is c or strip(cur) is c:
                            truth_only = True
                elif p_["k"] == "CompoundStmt":
                    for st in p_["c"]:
                        if st is cur or any(y is cur for y in walk(st)):
                            break
                        # assert(x) expands to a conditional whose condition mentions x
                        if st["k"] != "IfStmt" and any(y["k"] == "CallExpr" and y.get("callee") in ("bintIsSmall",) and _same(y["c"][1], operand) for y in walk(st)):
                            proved = True                      # assert(bintIsSmall(b))
                        if st["k"] == "IfStmt" and common.ends_flow(st["c"][1]) and (len(st["c"]) < 3 or st["c"][2] is None):
                            c0 = strip(st["c"][0])             # if (!bintIsSmall(b)) return ...;
                            if c0 is not None and c0["k"] == "UnaryOperator" and c0["op"] == "!" and _proves(c0["c"][0], operand)[0]:
                                proved = True
                cur = p_
            out.append((name, c["l"], render(strip(operand))[:50], proved, truth_only, why))
    return out


def report(rep, rule, units=None, configs=("compiler",), floor=None):
    n = 0
    for config in configs:
        us = units or (common.compiler_units() if config == "compiler" else common.runtime_units())
        dig = common.map_units(us, digest, config, all_trees=True)
        for u in sorted(dig):
            base = u.split("/")[-1]
            for fn, line, operand, proved, truth_only, why in dig[u]:
                n += 1
                key = "bintSmall-on-immediate:%s:%s" % (base, fn)
                where = "%s:%d (%s)" % (base, line, fn)
                if proved or truth_only:
                    rep.ok(rule, key + "@%d:%s" % (line, config), nontrivial=proved)
                else:
                    rep.violation(rule, key, where,
                                  "the value of bintSmall(%s) is used here without a proof that the operand is an immediate big "
                                  "integer%s: for a stored one bintSmall returns half the object's address, so a constant between "
                                  "2^62 and 2^63 is converted to a different number on every compilation while the run-time "
                                  "conversion gives the right one" % (operand, " (" + why + ")" if why else ""))
    if floor is not None:
        rep.floor("uses of bintSmall", n, floor)
    return n
