"""C03: interpreter and native executable agree - the two routes implement the
same instruction set.

T1  FOAM instruction coverage of the interpreter's dispatch chain equals that
    of the C generator's, up to a frozen, justified difference;
T2  every builtin has a well-formed row in the C table: the runtime entry it
    names is declared in foam_c.h with the right number of parameters, and the
    statement macro, when named, exists with 2 + argCount parameters;
T3  the interpreter's foreign-call bridge: one table row and one dispatch case
    per enumerator, row string == enumerator name.
The semantic agreement of each builtin on the two routes is C04.
"""
import json
import os
import re

from . import common, coverage, bvals
from .common import AnalysisBroken, strip, walk, const_value, enum_name, string_value, calls

EXPLANATION = (
    "T1: handled(FOAM tag) = union of the case labels of the outermost switches along the dispatch chain, not counting "
    "groups whose body only calls bug(); interpreter chain fintStmt, fintEval_, fintGetReference; C generator chain gccCmd, "
    "gccExpr, gccVal, gccRef, gccId. The symmetric difference must equal the frozen table frozen/c03_tag_difference.json "
    "(one reason per tag, established by reading: forms no generator produces, forms consumed by the loader). T2: for every "
    "row of ccBValInfoTable of kind CCO_FCall (special 0) the named identifier is a function declared in foam_c.h or a "
    "function-like macro defined there, with argCount parameters (+ retCount out-parameters for multi-valued builtins); a "
    "named statement macro is defined with 2 + argCount parameters. T3: fintForeignTable has exactly one row per "
    "enumerator of fintForeignTag (row string = enumerator name, const flag consistent with the two dispatch switches) and "
    "every non-constant enumerator has a case in the PCall dispatch of fintEval_, every constant one in "
    "fintInitForeignGlobValue. T4: for every builtin, the normalised expression tree of its fintEvalBCall case equals the "
    "tree of the C the generator emits for it (term built by gc0Builtin/gc0FCall/gc0Cop/gc0SIntMod, computed from their source "
    "for that tag, names resolved through foam_c.h by clang; expression form and statement-macro form); trees and rewrite list "
    "are those of C04. T5: in genc.c and ccode.c the value of every call that returns a CCode is used (assigned, passed on, "
    "returned or tested) or explicitly cast to void; one frozen exception (frozen/c03_effect_calls.json). T6: the interpreter registers assigned by the expansion of "
    "stackFrameFree (normal return) are all among the registers that fintSaveState stores and fintRestoreState reloads (the state "
    "kept at a try block), and the two functions mention the same (field, register) pairs. T7: the precedence column of the infix rows of ccoInfoTable orders every pair of "
    "operators as the C grammar does and the left-to-right flag is false exactly for assignments; ccoPrExpr prints the operands of an "
    "infix node with iPrec + !isLtoR / iPrec + isLtoR and separates a prefix operator from an operand that is itself a prefix "
    "expression. Not decided: equality of outputs on programs.")

FROZEN = os.path.join(os.path.dirname(__file__), "frozen")
INTERP_CHAIN = ["fintStmt", "fintEval_", "fintGetReference"]
C_CHAIN = ["gccCmd", "gccExpr", "gccVal", "gccRef", "gccId"]


def t1(rep, f_fint, f_genc):
    I = coverage.handled_tags(f_fint, INTERP_CHAIN)
    C = coverage.handled_tags(f_genc, C_CHAIN)
    rep.floor("FOAM tags handled by the interpreter", len(I), 50)
    rep.floor("FOAM tags handled by the C generator", len(C), 55)
    frozen = json.load(open(os.path.join(FROZEN, "c03_tag_difference.json")))
    for t in sorted(set(I) | set(C)):
        key = "tag:" + t
        if t in I and t in C:
            rep.ok("T1", key, nontrivial=False)
            continue
        side = "C generator (%s, genc.c:%d)" % C[t] if t in C else "interpreter (%s, fint.c:%d)" % I[t]
        other = "interpreter" if t in C else "C generator"
        if t in frozen:
            rep.note("T1 frozen difference %s: %s" % (t, frozen[t]))
            rep.ok("T1", key + ":frozen", nontrivial=False)
            continue
        rep.violation("T1", key, "fint.c (dispatch chain)" if t in C else "genc.c (dispatch chain)",
                      "%s is executed by the %s but the %s has no case for it (its dispatch ends in bug()): a program "
                      "using it works on one route and aborts on the other" % (t, side, other))
    for t in frozen:
        if (t in I) == (t in C):
            rep.note("T1: frozen difference %s no longer exists (both or neither route handle it)" % t)


def t2(rep, f_foam, f_genc):
    info = bvals.info_table(f_foam)
    by = {r["tag"]: r for r in info}
    crows = bvals.ctable_rows(f_genc)
    macros = common.macro_defs("foam_c.h")
    fh = common.extract("foam_c.h")
    decls = {n: fn for n, fn in fh.funcs.items()}
    n = 0
    for row in crows:
        inf = by.get(row["tag"])
        if inf is None:
            continue
        short = row["tag"][len("FOAM_BVal_"):]
        where = "genc.c:%d (ccBValInfoTable %s)" % (row["line"], short)
        argc = inf["argCount"]
        if row["cfun"] == "CCO_FCall" and row["special"] == 0:
            if not isinstance(row["str"], str):
                rep.violation("T2", "entry:" + short, where, "row of kind CCO_FCall names no runtime entry")
                continue
            n += 1
            name = row["str"]
            want = argc + (inf["retCount"] if inf["retCount"] != 1 else 0)
            if name in macros and macros[name][0] is not None:
                got = len(macros[name][0])
                kind = "macro"
            elif name in decls:
                got = len(decls[name]["params"])
                kind = "function"
                if decls[name].get("variadic"):
                    got = want
            else:
                if short == "ssaPhi":
                    rep.note("T2: ssaPhi deliberately names a non-existent function (never reaches genc)")
                    continue
                rep.violation("T2", "entry:" + short, where,
                              "the runtime entry %s named for %s is neither declared nor defined as a macro in foam_c.h: the "
                              "generated C does not compile/link" % (name, short))
                continue
            if got != want:
                rep.violation("T2", "entry:" + short, where,
                              "%s has %d operand(s)%s but the %s %s takes %d parameter(s)" % (
                                  short, argc, " and %d results" % inf["retCount"] if inf["retCount"] != 1 else "", kind, name, got))
            else:
                rep.ok("T2", "entry:" + short)
        if row["macro"]:
            m = macros.get(row["macro"])
            if m is None or m[0] is None:
                rep.violation("T2", "macro:" + short, where, "statement macro %s is not defined in foam_c.h" % row["macro"])
            elif len(m[0]) != 2 + argc:
                rep.violation("T2", "macro:" + short, where, "statement macro %s takes %d parameters, %s needs (r, t) + %d operands" % (
                    row["macro"], len(m[0]), short, argc))
            else:
                rep.ok("T2", "macro:" + short)
    rep.floor("C table rows naming a runtime entry", n, 150)


def t3(rep, f_fint):
    ev = None
    for e in f_fint.raw["enums"]:
        d = dict(e["e"])
        if "FINT_FOREIGN_END" in d:
            ev = [(n, v) for n, v in e["e"] if n != "FINT_FOREIGN_END"]
    if ev is None:
        raise AnalysisBroken("enum fintForeignTag not found")
    rep.floor("foreign tags", len(ev), 60)
    rows = {}
    for r in common.table_rows(f_fint.var("fintForeignTable")):
        c = r["c"]
        s = string_value(c[0])
        tag = enum_name(c[1]) if len(c) > 1 else None
        isc = const_value(c[2]) if len(c) > 2 else None
        if s is None and tag is None:
            continue
        if s is None:
            continue    # terminator row {0}
        rows.setdefault(tag, []).append((s, isc, r["l"]))
    # dispatch cases
    ev_fn = f_fint.func("fintEval_")
    disp = set()
    for sw in common.find(ev_fn["body"], "SwitchStmt"):
        for x in walk(sw["c"][-1]):
            if x["k"] == "CaseStmt" and (x.get("lon") or "").startswith("FINT_FOREIGN_"):
                disp.add(x["lon"])
    cfn = f_fint.func("fintInitForeignGlobValue")
    cdisp = set(x["lon"] for x in walk(cfn["body"]) if x["k"] == "CaseStmt" and (x.get("lon") or "").startswith("FINT_FOREIGN_"))
    for name, v in ev:
        key = "foreign:" + name[len("FINT_FOREIGN_"):]
        rr = rows.get(name, [])
        where = "fint.c:%d (fintForeignTable)" % (rr[0][2] if rr else f_fint.var("fintForeignTable")["l"])
        if len(rr) != 1:
            rep.violation("T3", key, where, "%s has %d rows in fintForeignTable (exactly one expected)" % (name, len(rr)))
            continue
        s, isc, line = rr[0]
        if "FINT_FOREIGN_" + s != name:
            rep.violation("T3", key, where, "row for %s carries the string %r: a foreign import of that name would run %s" % (name, s, name))
            continue
        if isc:
            if name not in cdisp:
                rep.violation("T3", key, where, "constant foreign %s has no case in fintInitForeignGlobValue" % s)
                continue
        elif name not in disp:
            rep.violation("T3", key, where, "foreign function %s is declared to programs but the PCall dispatch of fintEval_ has no "
                                              "case for it: calling it ends in bug()" % s)
            continue
        rep.ok("T3", key, nontrivial=True)
    extra = set(rows) - set(n for n, _ in ev)
    for t in sorted(x for x in extra if x):
        rep.violation("T3", "foreign-row:" + t, "fint.c (fintForeignTable)", "row with tag %s that is not an enumerator" % t)


def t4(rep, tier):
    """Per builtin: the interpreter's case and the generated C denote the same expression (trees of C04)."""
    from . import c04_builtins as c4
    from .trees import show
    c4.FORMS = {}
    try:
        c4.run(tier, library=True)
        forms = c4.FORMS
    finally:
        c4.FORMS = None
    n = 0
    for short in sorted(forms):
        e = forms[short]
        fi = e["forms"].get("I")
        if fi is None or "I" in e["incomplete"]:
            continue
        for src, what in (("CE", "generated C (expression form)"), ("CS", "generated C (statement macro)")):
            fc = e["forms"].get(src)
            if fc is None or src in e["incomplete"]:
                continue
            n += 1
            key = "builtin:%s:I-vs-%s" % (short, src)
            if fc == fi:
                rep.ok("T4", key, sample={"builtin": short, "interpreter": show(fi), src: show(fc)} if n in (5, 50) else None)
            else:
                rep.violation("T4", key, e["where"].get(src, "genc.c"),
                              "%s: the interpreter computes %s but %s computes %s: the two routes print different results"
                              % (short, show(fi), what, show(fc)),
                              detail={"interpreter": show(fi), "c": show(fc), "where_interpreter": e["where"].get("I")})
    rep.floor("builtins compared between interpreter and generated C", n, 200)


def t5(rep):
    """No C fragment built by the generator is dropped."""
    from . import dropped
    import json
    allowed = json.load(open(os.path.join(FROZEN, "c03_effect_calls.json")))
    total = 0
    for unit in ("genc.c", "ccode.c"):
        f = common.extract(unit, all_trees=True)
        sites, n = dropped.dropped_results(f, unit, ("CCode", "CCodeList"))
        total += n
        bad = 0
        for s_ in sites:
            k = "%s:%s:%s" % (unit, s_["func"], s_["callee"])
            if k in allowed:
                rep.note("T5 frozen (%s): %s:%d" % (allowed[k], unit, s_["line"]))
                continue
            bad += 1
            rep.violation("T5", "dropped-fragment:" + k, "%s:%d (%s)" % (unit, s_["line"], s_["func"]),
                          "the %s returned by %s(...) is discarded: the generator builds a piece of C and then emits the "
                          "program without it" % (s_["type"], s_["callee"]))
        if not bad:
            rep.ok("T5", "no-dropped-fragment:" + unit, sample={"calls returning CCode examined": n})
    rep.floor("calls returning a C fragment", total, 1500)


def t6(rep):
    """The interpreter's non-local exit (exception caught: fintRestoreState) restores every register that a normal return
    (stackFrameFree) restores, and save/restore mirror each other."""
    f = common.extract("fint.c", all_trees=True)
    frame, nexp = set(), set()
    for name, fn in f.funcs.items():
        if "body" not in fn:
            continue
        for x in walk(fn["body"]):
            if x["k"] == "BinaryOperator" and x["op"] == "=" and "stackFrameFree" in (x.get("mac"), x.get("imac")):
                t = strip(x["c"][0])
                if t is not None and t["k"] == "DeclRefExpr" and t.get("g"):
                    frame.add(t["n"])
                    nexp.add(name)
    if len(frame) < 8:
        raise AnalysisBroken("fint.c: expansion of stackFrameFree not found (registers restored on return: %s)" % sorted(frame))

    def pairs(fname, save):
        out = set()
        for x in walk(f.func(fname)["body"]):
            if x["k"] == "BinaryOperator" and x["op"] == "=":
                a, b = strip(x["c"][0]), strip(x["c"][1])
                fld, glob = (a, b) if save else (b, a)
                if fld is not None and glob is not None and fld["k"] == "MemberExpr" and glob["k"] == "DeclRefExpr" and glob.get("g"):
                    out.add((fld["n"], glob["n"]))
        return out
    saved, restored = pairs("fintSaveState", True), pairs("fintRestoreState", False)
    if len(saved) < 8:
        raise AnalysisBroken("fintSaveState: `state->field = register` assignments not recognised")
    if saved == restored:
        rep.ok("T6", "state:save-restore-mirror", sample={"registers": sorted(g for _, g in saved)})
    else:
        rep.violation("T6", "state:save-restore-mirror", "fint.c (fintSaveState / fintRestoreState)",
                      "saved but not restored: %s; restored but not saved: %s" % (sorted(saved - restored), sorted(restored - saved)))
    regs = {g for _, g in restored} & {g for _, g in saved}
    for r in sorted(frame):
        key = "state:covers-frame-register:%s" % r
        if r in regs:
            rep.ok("T6", key, nontrivial=False)
        else:
            rep.violation("T6", key, "fint.c (fintSaveState / fintRestoreState)",
                          "a normal return restores the interpreter register '%s' (stackFrameFree) but the state saved at a try block "
                          "and restored when an exception is caught does not contain it: after a caught exception the interpreter "
                          "continues with the thrower's '%s', the compiled program with the catcher's" % (r, r))
    rep.floor("interpreter registers restored by a normal return", len(frame), 12)


def t7(rep):
    """The C pretty-printer parenthesises as the C grammar requires."""
    from . import prectab
    f = common.extract("ccode.c", trees=["ccoPrExpr"])
    rec = f.records.get("cco_info")
    if rec is None:
        raise AnalysisBroken("struct cco_info not found")
    fields = [x[0] for x in rec["f"]]
    rows, assoc = [], {}
    for r in common.table_rows(f.var("ccoInfoTable")):
        g = dict(zip(fields, r["c"]))
        if enum_name(g["kind"]) == "CCOK_Infix":
            rows.append((enum_name(g["tag"]), string_value(g["str"]), const_value(g["precedence"])))
            assoc[enum_name(g["tag"])] = (string_value(g["str"]) or "").strip(), const_value(g["isLeftToRight"])
    bad, n = prectab.inconsistent_pairs(rows)
    rep.floor("infix operators in ccoInfoTable", n, 25)
    for n1, s1, p1, n2, s2, p2 in bad:
        rep.violation("T7", "precedence:%s~%s" % (n1, n2), "ccode.c (ccoInfoTable %s / %s)" % (n1, n2),
                      "`%s` has precedence %d and `%s` has %d, which orders them differently from the C grammar: the printer omits "
                      "parentheses the C compiler needs (a | b ^ c for (a | b) ^ c), so the executable computes something else than "
                      "the interpreter" % (s1, p1, s2, p2))
    if not bad:
        rep.ok("T7", "precedence-table-follows-grammar", sample={"operators": n})
    wrong = [t for t, (s_, ltr) in assoc.items() if s_ in prectab.GRAMMAR and (prectab.GRAMMAR[s_] == 2) == bool(ltr)]
    if wrong:
        rep.violation("T7", "associativity", "ccode.c (ccoInfoTable)", "left-to-right flag wrong for %s (assignments associate to the right, every other binary operator to the left)" % wrong)
    else:
        rep.ok("T7", "associativity")
    # shape of the printer: operands of an infix node get iPrec + (0|1) by associativity; a prefix operator directly followed by a
    # prefix operand is separated
    fn = f.func("ccoPrExpr")
    sw = [x for x in walk(fn["body"]) if x["k"] == "SwitchStmt" and strip(x["c"][0]) is not None and strip(x["c"][0]).get("n") == "kind"]
    if len(sw) != 1:
        raise AnalysisBroken("ccoPrExpr: switch over the operator kind not found")
    groups = {l[0]: g for g in common.switch_cases(sw[0]) for l in g["labels"]}
    gi = groups.get("CCOK_Infix")
    gp = groups.get("CCOK_Prefix")
    if gi is None or gp is None:
        raise AnalysisBroken("ccoPrExpr: cases CCOK_Infix / CCOK_Prefix not found")
    from .peval import peval
    pnodes = []
    for st in gi["stmts"]:
        for c in common.calls(st, "ccoPrExpr"):
            pnodes.append(c["c"][2])
    vals = None
    if len(pnodes) == 2:
        vals = [(peval(pnodes[0], {"isLtoR": v, "iPrec": 10}), peval(pnodes[1], {"isLtoR": v, "iPrec": 10})) for v in (1, 0)]
    precs = [common.render(strip(x)) for x in pnodes]
    if vals == [(10, 11), (11, 10)]:
        rep.ok("T7", "infix-operand-precedence", sample={"left": precs[0], "right": precs[1]})
    else:
        rep.violation("T7", "infix-operand-precedence", "ccode.c:%d (ccoPrExpr)" % gi["line"],
                      "the operands of an infix node must be printed with precedence iPrec (on the side the operator associates to) and "
                      "iPrec + 1 (on the other side); found %s, evaluating to %s for left-to-right / right-to-left" % (precs, vals))
    sep = False
    for st in gp["stmts"]:
        for x in walk(st):
            if x["k"] == "IfStmt" and any(y["k"] == "DeclRefExpr" and y["n"] == "CCOK_Prefix" for y in walk(x["c"][0])):
                sep = True
        for c in common.calls(st, "ccoPrExpr"):
            if "+" in common.render(strip(c["c"][2])):
                sep = True
    if sep:
        rep.ok("T7", "prefix-operand-separated")
    else:
        rep.violation("T7", "prefix-operand-separated", "ccode.c:%d (ccoPrExpr)" % gp["line"],
                      "a prefix operator is written directly in front of its operand even when that operand starts with a prefix operator: "
                      "-(-x) is printed as --x, which C reads as a pre-decrement")


def t8(rep):
    """Fluid bindings: a program that rebinds fluids pushes them once in its prologue (gc0Compound) and every C `return` the generator
    emits for it is preceded by the pop.  gccReturn is the only producer of the return statement of a FOAM Return: each of its exits
    must have passed the foamProgUsesFluids test, and the exits on its true side carry gc0PopFluid()."""
    f = common.extract("genc.c", all_trees=True, cfg=["gccReturn"])
    fn = f.func("gccReturn")
    cfg = common.CFG(fn)
    where = "genc.c:%d (gccReturn)" % fn["l"]

    def is_test(n):
        return n.get("mac") == "foamProgUsesFluids" or n.get("imac") == "foamProgUsesFluids"

    def cond_sense(bid):
        """(True/False, true-successor of the fluids test) when the block branches on foamProgUsesFluids, possibly negated"""
        ce = cfg.cond_edges(bid)
        if ce is None or ce[0] is None:
            return None
        c, neg = strip(ce[0]), False
        while c is not None and c["k"] == "UnaryOperator" and c.get("op") == "!":
            neg = not neg
            c = strip(c["c"][0])
        if c is not None and c["k"] == "BinaryOperator" and c["op"] in ("!=", "==") and const_value(c["c"][1]) == 0:
            neg = neg != (c["op"] == "==")
            c = strip(c["c"][0])
        if c is None or not is_test(c):
            return None
        return ce[2] if neg else ce[1]
    tests = [bid for bid in cfg.blocks if cond_sense(bid) is not None]
    if not tests:
        raise AnalysisBroken("gccReturn: no branch on foamProgUsesFluids(...)")
    if not cfg.return_blocks():
        raise AnalysisBroken("gccReturn: no return statement in the CFG")
    esc = cfg.path_avoiding(cfg.entry, lambda n: n["k"] == "ReturnStmt", is_test)
    if esc is None:
        rep.ok("T8", "return:every-exit-tests-fluids")
    else:
        rep.violation("T8", "return:every-exit-tests-fluids", where,
                      "a path through gccReturn reaches a return without the foamProgUsesFluids test: the C `return` for that form of "
                      "FOAM Return leaves the function with the caller's fluid bindings still replaced (the interpreter restores them)",
                      detail={"cfg_path": esc[:12]})
    for bid in tests:
        tsucc = cond_sense(bid)
        esc = cfg.path_avoiding(tsucc, None, lambda n: n["k"] == "CallExpr" and n.get("callee") == "gc0PopFluid", src_idx=-1)
        key = "return:fluid-side-pops@%d" % bid if len(tests) > 1 else "return:fluid-side-pops"
        if esc is None:
            rep.ok("T8", key)
        else:
            rep.violation("T8", key, where, "when the program uses fluids gccReturn can return a fragment built without gc0PopFluid()",
                          detail={"cfg_path": esc[:12]})
    prog = f.func("gc0Compound")
    for callee in ("gc0PushFluid", "gc0PopFluid"):
        cs = calls(prog["body"], callee)
        if len(cs) == 1:
            rep.ok("T8", "prog:%s-once" % callee)
        elif not cs:
            rep.violation("T8", "prog:%s-once" % callee, "genc.c:%d (gc0Compound)" % prog["l"], "gc0Compound no longer emits %s()" % callee)
        else:
            raise AnalysisBroken("gc0Compound calls %s %d times: pairing not understood" % (callee, len(cs)))
    users = {}
    for name, g in f.funcs.items():
        if "body" in g:
            for callee in ("gccReturnValues", "gc0PopFluid", "gc0PushFluid"):
                if calls(g["body"], callee):
                    users.setdefault(callee, set()).add(name)
    want = {"gccReturnValues": {"gccReturn"}, "gc0PopFluid": {"gccReturn", "gc0Compound"}, "gc0PushFluid": {"gc0Compound"}}
    for callee, w in want.items():
        got = users.get(callee, set())
        if got == w:
            rep.ok("T8", "callers:" + callee, nontrivial=False)
        elif got - w:
            raise AnalysisBroken("%s is now also called from %s: fluid push/pop pairing must be re-read" % (callee, sorted(got - w)))
        else:
            rep.violation("T8", "callers:" + callee, "genc.c", "%s is no longer called from %s" % (callee, sorted(w - got)))


def t10(rep, rule="T10"):
    """String and character constants reach the generated C through ccoPrToken.  A byte it does not print as itself must be written
    as an escape denoting that byte and nothing else: the value taken as unsigned char (a plain char of 0x80 or more is negative and
    prints as 11 octal digits) and the escape of fixed width (an octal escape takes up to three digits, so a shorter one absorbs a
    following digit character).  This holds for every formatted escape of the function, in whichever C dialect it is used."""
    f = common.extract("ccode.c", trees=["ccoPrToken"])
    fn = f.func("ccoPrToken")
    esc = []
    for c in calls(fn["body"]):
        if c.get("callee") in ("ccoPrintf", "sprintf", "fprintf", "printf"):
            for a in c["c"][1:]:
                sv = string_value(a)
                if sv is not None and "%" in sv and "\\" in sv:
                    esc.append((c, sv))
    if not esc:
        raise AnalysisBroken("ccoPrToken: no formatted escape found")
    vars_ = set()
    for i, (call, fmt) in enumerate(esc):
        m = re.search(r"\\x?%([#0-9.]*)([oxX])", fmt)
        if m is None:
            raise AnalysisBroken("ccoPrToken: escape format %r not understood" % fmt)
        key = "string-escape:fixed-width" + ("" if i == 0 else ":%d" % (i + 1))
        if m.group(2) == "o" and m.group(1) in ("03", ".3") and "\\x" not in fmt:
            rep.ok(rule, key, sample={"format": fmt})
        else:
            rep.violation(rule, key, "ccode.c:%d (ccoPrToken)" % call["l"],
                          "a non-printable byte of a string constant is written with %r: %s, so the executable's string differs from the "
                          "interpreter's (and from the same program compiled for the other C dialect)"
                          % (fmt, "a hexadecimal escape has no length limit and absorbs following hex digits (\"Gr\\xc3\\xb6\\xc3\\x9fe\": `\\x9fe` is one escape)" if m.group(2) != "o" or "\\x" in fmt
                             else "an octal escape of fewer than three digits absorbs a following digit character ('\\1' '7' "
                             "becomes '\\17')"))
        val = [strip(a) for a in call["c"][2:]]
        if len(val) != 1 or val[0] is None or val[0]["k"] != "DeclRefExpr":
            raise AnalysisBroken("ccoPrToken: the escaped value is not a plain variable")
        vars_.add(val[0]["n"])
    if rule != "T10":
        return
    for var in sorted(vars_):
        loads = [x for x in walk(fn["body"]) if x["k"] == "BinaryOperator" and x["op"] == "=" and (strip(x["c"][0]) or {}).get("n") == var
                 and any(y["k"] == "UnaryOperator" and y.get("op") == "*" for y in walk(x["c"][1]))]
        if not loads:
            raise AnalysisBroken("ccoPrToken: no load of '%s' from the string" % var)
        bad = [x for x in loads if not any((y["k"] == "CStyleCastExpr" and y.get("tc") == "u8") or
                                           (y["k"] == "BinaryOperator" and y["op"] == "&" and const_value(y["c"][1]) == 255)
                                           for y in walk(x["c"][1]))]
        if not bad:
            rep.ok("T10", "string-escape:byte-unsigned", sample={"loads": len(loads)})
        else:
            rep.violation("T10", "string-escape:byte-unsigned", "ccode.c:%d (ccoPrToken)" % bad[0]["l"],
                          "`%s` reads a byte of the constant through plain char: a byte of 0x80 or more is negative, isprint() of it is "
                          "undefined and its octal form has eleven digits, so a non-ASCII string literal is different text in the "
                          "executable" % common.render(bad[0])[:60])


def t12(rep):
    """Foreign runtime entries that the interpreter emulates: where the emulation does not call the entry itself but a routine of
    the compiler, and the runtime entry is a wrapper around its own copy of that routine, the two copies must be the same code,
    types of the locals included (a byte read through `int` in one copy and through unsigned char in the other gives different
    hashes for bytes of 0x80 and more: interpreter and executable then print different numbers)."""
    from . import siblings
    ff = common.extract("fint.c", all_trees=True)
    rt = {}
    for u in ("foam_c.c", "foam_i.c", "foam_cfp.c"):
        for n_, fn in common.extract(u, "runtime", all_trees=True).funcs.items():
            if "body" in fn:
                rt[n_] = (u, fn)
    util = {}
    for u in ("strops.c", "util.c", "format.c"):
        for n_, fn in common.extract(u, all_trees=True).funcs.items():
            if "body" in fn and fn.get("file", "").endswith(u):
                util[n_] = (u, fn)
    n = pairs_found = 0
    for name, fn in ff.funcs.items():
        if "body" not in fn:
            continue
        for sw in walk(fn["body"]):
            if sw["k"] != "SwitchStmt":
                continue
            try:
                groups = common.switch_cases(sw)
            except AnalysisBroken:
                continue
            for g in groups:
                labs = [l[0] for l in g["labels"] if l[0] and l[0].startswith("FINT_FOREIGN_")]
                if len(labs) != 1:
                    continue
                fi = labs[0][len("FINT_FOREIGN_"):]
                n += 1
                ic = [c.get("callee") for st in g["stmts"] for c in calls(st)
                      if c.get("callee") and not c["callee"].startswith("fint") and c["callee"] != "_do_assert"]
                if fi not in rt or len(ic) != 1 or ic[0] == fi or ic[0] not in util:
                    continue
                rbody = rt[fi][1]["body"]
                rc = [c.get("callee") for c in calls(rbody) if c.get("callee")]
                if len(rc) != 1 or rc[0] not in rt:
                    continue
                pairs_found += 1
                a, b = util[ic[0]], rt[rc[0]]
                r = siblings.compare(a[1], b[1], [("@", "local"), ("@", "str"), ("@", "fi")])
                key = "emulation-same-routine:%s:%s~%s" % (fi, ic[0], rc[0])
                if r is None:
                    rep.ok("T12", key, sample={"interpreter": "%s (%s)" % (ic[0], a[0]), "runtime": "%s (%s)" % (rc[0], b[0])})
                elif siblings.kind_of_difference(r) == "shape":
                    raise AnalysisBroken("%s and %s no longer have the same shape; re-read both" % (ic[0], rc[0]))
                else:
                    i_, ta, la, tb, lb = r[:5]
                    rep.violation("T12", key, "%s:%d (%s) / %s:%d (%s)" % (a[0], la, ic[0], b[0], lb, rc[0]),
                                  "the interpreter answers the foreign call %s with %s, the executable with %s; the two are copies of "
                                  "one routine but differ at token %d: `%s` against `%s`" % (fi, ic[0], rc[0], i_, ta, tb))
    rep.floor("foreign entries emulated by the interpreter", n, 15)
    rep.floor("emulations through a separate copy of the routine", pairs_found, 1)


TAPE_READS = ("fintGetTagFmt", "fintGetInt", "fintGetByte", "fintGetHInt", "fintGetSInt", "fintGetn", "fintGetReference", "fintEval",
              "fintTypedEval", "fintEval_", "fintSkip")


def t13(rep):
    """The interpreter decodes statements from a byte tape.  A case of fintStmt that accepts a tag and continues without reading
    anything is only right for node kinds that have no operands (foamInfoTable: argc 0): otherwise the operand bytes are decoded as
    the following statements."""
    f_fint = common.extract("fint.c", trees=["fintStmt"])
    f_foam = common.extract("foam.c")
    rec = f_foam.records.get("foam_info")
    if rec is None:
        raise AnalysisBroken("struct foam_info not found")
    fields = [x[0] for x in rec["f"]]
    argc = {}
    for r in common.table_rows(f_foam.var("foamInfoTable")):
        g = dict(zip(fields, r["c"]))
        argc[enum_name(g["tag"])] = const_value(g["argc"])
    if len(argc) < 60:
        raise AnalysisBroken("foamInfoTable: only %d rows read" % len(argc))
    fn = f_fint.func("fintStmt")
    sws = [x for x in walk(fn["body"]) if x["k"] == "SwitchStmt"]
    if not sws:
        raise AnalysisBroken("fintStmt: no switch")
    n = 0
    for g in common.switch_cases(sws[0]):
        labs = [l[0] for l in g["labels"] if l[0] and l[0].startswith("FOAM_")]
        if not labs:
            continue
        reads = any((c.get("callee") in TAPE_READS) or (c.get("mac") in TAPE_READS) for st in g["stmts"] for c in walk(st)) or \
            any(y["k"] == "BinaryOperator" and y["op"] == "=" and (strip(y["c"][0]) or {}).get("n") == "ip"
                for st in g["stmts"] for y in walk(st))
        for t in labs:
            n += 1
            key = "stmt-consumes-operands:%s" % t
            if reads or argc.get(t) == 0:
                rep.ok("T13", key, nontrivial=not reads)
            elif t not in argc:
                raise AnalysisBroken("fintStmt: %s has no row in foamInfoTable" % t)
            else:
                rep.violation("T13", key, "fint.c:%d (fintStmt)" % g["line"],
                              "fintStmt accepts a %s statement and continues without reading its %s operand(s): the bytes that "
                              "follow are decoded as statements, so a program containing such a statement (-Q0 keeps dead ones) "
                              "aborts in the interpreter and runs as an executable" % (t[5:], argc[t] if argc[t] >= 0 else "N"))
    rep.floor("statement tags of fintStmt", n, 25)


def t14(rep):
    """The interpreter's value stack is a chain of chunks.  Leaving a chunk (stackFrameFree, when the frame pointer lies outside
    the current chunk) restores `sp = stack[1].ptr; stack = stack[0].ptr`: cell [1] of a chunk holds the sp the previous chunk
    had when the chunk was entered.  So every way of entering a chunk -- stackChain, whether it allocates the next chunk or
    re-enters one allocated earlier -- must store the current sp into that chunk's cell [1] before moving sp into it.  A chunk
    re-entered from a higher sp without the store later puts sp below live frames; the generated C has no such stack."""
    f = common.extract("fint.c", trees=["stackChain"], cfg=["stackChain"])
    # the reader side: the restore must still be what it was read to be
    src = open(os.path.join(common.SRC, "fint.c"), errors="replace").read()
    if not re.search(r"sp\s*=\s*stack\s*\[\s*1\s*\]\s*\.\s*ptr", src):
        raise AnalysisBroken("fint.c: `sp = stack[1].ptr` (restore of the stack pointer when a chunk is left) not found: T14 must be re-derived")
    fn = f.func("stackChain")
    cfg = common.CFG(fn)

    def saves_sp(e):
        if e["k"] != "BinaryOperator" or e["op"] != "=":
            return False
        l, r = strip(e["c"][0]), strip(e["c"][1])
        if r is None or r["k"] != "DeclRefExpr" or r["n"] != "sp":
            return False
        if l is None or l["k"] != "MemberExpr" or l["n"] != "ptr":
            return False
        a = strip(l["c"][0])
        return a is not None and a["k"] == "ArraySubscriptExpr" and const_value(a["c"][1]) == 1

    def moves_sp(e):
        if e["k"] != "BinaryOperator" or e["op"] != "=":
            return False
        l = strip(e["c"][0])
        return l is not None and l["k"] == "DeclRefExpr" and l["n"] == "sp"
    moves = cfg.events(moves_sp)
    if not moves:
        raise AnalysisBroken("stackChain: no assignment to sp found")
    bad = cfg.path_avoiding(cfg.entry, moves_sp, saves_sp, src_idx=-1)
    where = "fint.c:%d (stackChain)" % fn["l"]
    if bad is None:
        rep.ok("T14", "chunk-entry-saves-sp", sample={"moves of sp": len(moves)})
    else:
        rep.violation("T14", "chunk-entry-saves-sp", where,
                      "a path through stackChain moves sp into the next chunk without storing the old sp in that chunk's cell [1]: "
                      "when execution later leaves the chunk, stackFrameFree restores sp from that cell, i.e. from an earlier "
                      "crossing; a second deep call chain that crosses the boundary from a higher sp then returns with sp below "
                      "live frames and the next call overwrites them (wrong values or a fault under -Ginterp, the executable is "
                      "unaffected)", detail={"cfg_path": bad[:10]})


def _next_chain(n):
    """lexEnv->next->...->next  ->  number of `next` links, or None"""
    k = 0
    s_ = strip(n)
    while s_ is not None and s_["k"] == "MemberExpr" and s_["n"] == "next":
        k += 1
        s_ = strip(s_["c"][0])
    if s_ is not None and s_["k"] == "DeclRefExpr" and s_["n"] == "lexEnv":
        return k
    return None


def t16(rep):
    """A halt (never, a failed assert, error, halt n) ends the program on both routes with a failure status, and what the
    program printed before it is the same.  Two clauses.  (a) The run-time's fiHalt does not return: on its CFG the exit is
    reached only through exit() -- a code for which it falls out of the switch lets the executable carry on and finish with
    status 0 where the interpreter stops.  (b) The interpreter's own remarks go to stderr: every call of fintWhere (the
    backtrace printer, which writes to dbOut = stdout by default) outside the compiler-bug paths is made with dbOut switched to
    osStderr, as the three exception sites do -- otherwise the interpreter's stdout carries lines the executable never prints."""
    f = common.extract("foam_c.c", "runtime", trees=["fiHalt"], cfg=["fiHalt"])
    fn = f.func("fiHalt")
    cfg = common.CFG(fn)
    stops = lambda e: e["k"] == "CallExpr" and e.get("callee") in ("exit", "abort", "_exit")
    if not calls(fn["body"], "exit") or not cfg.noreturn_blocks:
        raise AnalysisBroken("fiHalt no longer calls exit")
    p = cfg.path_avoiding(cfg.entry, None, stops)          # a block ending in a non-returning call is not an exit
    if p is None:
        rep.ok("T16", "halt-does-not-return")
    else:
        rep.violation("T16", "halt-does-not-return", "foam_c.c:%d (fiHalt)" % fn["l"],
                      "fiHalt can return to the program: for that code the executable carries on after the halt and finishes with "
                      "status 0, while the interpreter raises the run-time error and exits 1 (halt(-1) from Machine)",
                      detail={"cfg_path": p[:10]})
    f2 = common.extract("fint.c", all_trees=True)
    n = 0
    for name, fn2 in sorted(f2.funcs.items()):
        if "body" not in fn2 or not fn2.get("file", "").endswith("fint.c") or name == "fintWhere":
            continue
        cs = calls(fn2["body"], "fintWhere")
        if not cs:
            continue
        par = common.parents(fn2["body"])
        for c in cs:
            # the statement list this call sits in
            cur = c
            blk = None
            while cur["id"] in par:
                p_ = par[cur["id"]]
                if p_["k"] == "CompoundStmt":
                    blk = p_
                    break
                cur = p_
            if blk is None:
                raise AnalysisBroken("%s: fintWhere call outside a block" % name)
            sts = [x for x in blk["c"] if x is not None]
            i = next((k for k, st in enumerate(sts) if st is cur or any(y is c for y in walk(st))), None)
            nxt = sts[i + 1] if i is not None and i + 1 < len(sts) else None
            if nxt is not None and any(y["k"] == "CallExpr" and y.get("callee") in ("bug", "bugBadCase") for y in walk(nxt)):
                continue            # compiler-bug path: the process dies with a bug report
            if any(y["k"] == "CallExpr" and y.get("callee") in ("bug", "bugBadCase") for y in walk(cur)) and cur is not c:
                continue
            n += 1
            to_err = False
            for st in sts[:i or 0]:
                for y in walk(st):
                    if y["k"] == "BinaryOperator" and y["op"] == "=" and (strip(y["c"][0]) or {}).get("n") == "dbOut" and \
                            (strip(y["c"][1]) or {}).get("n") == "osStderr":
                        to_err = True
            key = "interpreter-remarks-on-stderr:%s@%d" % (name, c["l"])
            if to_err:
                rep.ok("T16", key)
            else:
                rep.violation("T16", "interpreter-remarks-on-stderr:%s" % name, "fint.c:%d (%s)" % (c["l"], name),
                              "the backtrace is printed with dbOut left at stdout: a program that halts (never, failed assert, "
                              "error) prints a call trace with a raw address on the interpreter's standard output, which the "
                              "executable's output does not have")
    rep.floor("backtrace sites of the interpreter outside bug paths", n, 3)


def t17_digest(f):
    base = f.unit.split("/")[-1]
    out = []
    for name, fn in f.funcs.items():
        if "body" not in fn or not fn.get("file", "").endswith(base) or base == "bigint.c":
            continue
        cs = calls(fn["body"], "bintToPlacevS")
        if not cs:
            continue
        for c in cs:
            if len(c["c"]) < 4:
                continue
            dv = None
            a = strip(c["c"][3])
            if a is not None and a["k"] == "UnaryOperator" and a["op"] == "&":
                dv = (strip(a["c"][0]) or {}).get("n")
            if dv is None:
                continue
            uses = [y for y in walk(fn["body"]) if y["k"] == "DeclRefExpr" and y["n"] == dv]
            par = common.parents(fn["body"])
            consumed = False
            for y in uses:
                p_ = par.get(y["id"])
                while p_ is not None and p_["k"] in ("ParenExpr", "ImplicitCastExpr", "CStyleCastExpr"):
                    p_ = par.get(p_["id"])
                if p_ is None:
                    continue
                if p_["k"] == "UnaryOperator" and p_["op"] == "&":
                    continue                                  # the out-parameter itself
                if p_["k"] == "CallExpr" and p_.get("callee") == "bintReleasePlacevS":
                    continue
                consumed = True
            sign = any((y["k"] == "MemberExpr" and y["n"] == "isNeg") or (y["k"] == "CallExpr" and y.get("callee") in ("bintIsNeg", "bintSign", "bintIsPos"))
                       or (y.get("mac") in ("bintIsNeg", "IsNeg")) for y in walk(fn["body"]))
            out.append((name, c["l"], consumed, sign))
    return out


def t17(rep):
    """bintToPlacevS gives the *magnitude* of a big integer as 16-bit places; its sign is a separate bit (the byte-code writer
    puts it in its own byte, the C generator hands it to fiBIntFrPlacev next to the place vector).  Whoever looks at the places
    -- writes them, compares them, keys a table on them -- must look at the sign too: a table of `large constants already
    emitted` keyed by the places alone makes the literal -N, met after N in the same unit, the global that holds N; the
    executable computes with +N where the interpreter reads -N from the byte code.  Every function outside bigint.c that uses
    the places bintToPlacevS returns (beyond releasing them) also consults the sign."""
    dig = common.map_units(common.compiler_units(), t17_digest, "compiler", all_trees=True)
    n = 0
    for u in sorted(dig):
        base = u.split("/")[-1]
        for name, line, consumed, sign in dig[u]:
            n += 1
            key = "places-travel-with-their-sign:%s:%s" % (base, name)
            if not consumed or sign:
                rep.ok("T17", key + "@%d" % line, nontrivial=consumed)
            else:
                rep.violation("T17", key, "%s:%d (%s)" % (base, line, name),
                              "%s uses the place vector of a big integer and never looks at its sign: two constants of equal "
                              "magnitude and opposite sign are the same to it (the C generated for -N after N in one unit refers "
                              "to the global holding N; the interpreter reads the sign from the byte code)" % name)
    rep.floor("uses of bintToPlacevS outside bigint.c", n, 3)


def t15(rep):
    """A lexical reference (Lex lev n), an environment reference (Env lev) and the left-hand side of an assignment to a lexical
    all find their frame by following `lev` links from the current environment.  The interpreter unrolls the first levels
    (`case k:` uses k links) and walks the rest in a loop.  Each of the three copies must reach link number `lev`: case k follows
    exactly k links, and a default that starts from m links and loops `for (j = j0; j < lev; j++) e = e->next` needs m == j0.
    The generated C indexes the same chain; a copy that stops one frame short assigns a deep lexical in the wrong frame, in the
    interpreter only."""
    f = common.extract("fint.c", trees=["fintEval_", "fintGetReference"])
    n = 0
    for fname in ("fintEval_", "fintGetReference"):
        fn = f.func(fname)
        for sw in walk(fn["body"]):
            if sw["k"] != "SwitchStmt":
                continue
            d = strip(sw["c"][0])
            if d is None or d["k"] != "DeclRefExpr" or d["n"] != "lev":
                continue
            try:
                groups = common.switch_cases(sw)
            except AnalysisBroken:
                continue
            uses_env = any(y["k"] == "DeclRefExpr" and y["n"] == "lexEnv" for g in groups for st in g["stmts"] for y in walk(st))
            if not uses_env:
                continue
            for g in groups:
                for lab in g["labels"]:
                    where = "fint.c:%d (%s)" % (g["line"], fname)
                    if lab[0] == "default":
                        init = j0 = None
                        for st in g["stmts"]:
                            for x in walk(st):
                                if x["k"] == "DeclStmt":
                                    for dcl in x.get("decls", []):
                                        if dcl.get("init") is not None and _next_chain(dcl["init"]) is not None:
                                            init = _next_chain(dcl["init"])
                                elif x["k"] == "BinaryOperator" and x["op"] == "=" and _next_chain(x["c"][1]) is not None and \
                                        (strip(x["c"][0]) or {}).get("k") == "DeclRefExpr" and init is None:
                                    init = _next_chain(x["c"][1])
                                elif x["k"] == "ForStmt":
                                    i0 = strip(x["c"][0])
                                    cond = strip(x["c"][1])
                                    if i0 is not None and i0["k"] == "BinaryOperator" and i0["op"] == "=" and cond is not None and \
                                            cond["k"] == "BinaryOperator" and cond["op"] == "<" and (strip(cond["c"][1]) or {}).get("n") == "lev":
                                        j0 = const_value(i0["c"][1])
                                elif x["k"] == "WhileStmt":
                                    # `int j = j0; while (j < lev) { e = e->next; j++; }`: the same walk, counter started by its declaration
                                    cond = strip(x["c"][0])
                                    if cond is not None and cond["k"] == "BinaryOperator" and cond["op"] == "<" and \
                                            (strip(cond["c"][1]) or {}).get("n") == "lev" and (strip(cond["c"][0]) or {}).get("k") == "DeclRefExpr":
                                        v = strip(cond["c"][0])["n"]
                                        starts = [const_value(dcl["init"]) for st2 in g["stmts"] for y in walk(st2) if y["k"] == "DeclStmt"
                                                  for dcl in y.get("decls", []) if dcl["n"] == v and dcl.get("init") is not None]
                                        starts += [const_value(y["c"][1]) for st2 in g["stmts"] for y in walk(st2)
                                                   if y["k"] == "BinaryOperator" and y["op"] == "=" and (strip(y["c"][0]) or {}).get("n") == v]
                                        steps = [y for y in walk(x) if y["k"] == "UnaryOperator" and y["op"] in ("++", "post++") and
                                                 (strip(y["c"][0]) or {}).get("n") == v]
                                        if len(starts) == 1 and starts[0] is not None and len(steps) == 1:
                                            j0 = starts[0]
                        if init is None or j0 is None:
                            raise AnalysisBroken("%s: the default of a `switch (lev)` over lexEnv is not `e = lexEnv->next^m; for (j = j0; "
                                                 "j < lev; j++) e = e->next`" % fname)
                        n += 1
                        key = "level-walk:%s@%d:default" % (fname, sw["l"])
                        if init == j0:
                            rep.ok("T15", key, sample={"starts at link": init, "loop from": j0})
                        else:
                            rep.violation("T15", key, where,
                                          "the walk for levels beyond the unrolled ones starts from link %d and counts from %d: it ends "
                                          "at link lev%+d instead of link lev; the reference (for fintGetReference: the target of an "
                                          "assignment) lands in the wrong environment frame, while the executable uses the right one"
                                          % (init, j0, init - j0))
                    elif lab[1] is not None:
                        chains = [c for st in g["stmts"] for x in walk(st) for c in [_next_chain(x)] if c is not None and x["k"] == "MemberExpr"]
                        if not chains and lab[1] == 0:
                            continue
                        if not chains:
                            continue
                        n += 1
                        key = "level-walk:%s@%d:case-%d" % (fname, sw["l"], lab[1])
                        if max(chains) == lab[1]:
                            rep.ok("T15", key, nontrivial=False)
                        else:
                            rep.violation("T15", key, where, "case %d follows %d environment links" % (lab[1], max(chains)))
    rep.floor("level walks of the interpreter", n, 12)


def run(tier, only=None):
    rep = common.Report("C03", tier, EXPLANATION)
    f_fint = common.extract("fint.c", trees=INTERP_CHAIN + ["fintInitForeignGlobValue"])
    f_genc = common.extract("genc.c", trees=C_CHAIN)
    f_foam = common.extract("foam.c")
    t1(rep, f_fint, f_genc)
    t2(rep, f_foam, f_genc)
    t3(rep, f_fint)
    t5(rep)
    t6(rep)
    t7(rep)
    t8(rep)
    t10(rep)
    t12(rep)
    t13(rep)
    t14(rep)
    t15(rep)
    t16(rep)
    t17(rep)
    from . import variant_dispatch
    _fg = common.extract("genc.c", all_trees=True)
    for _d, _fl in (("gccExpr", 8), ("gccCmd", 3), ("gccRef", 8)):
        variant_dispatch.report(rep, "T11", _fg, "genc.c", _d, _fl)
    from . import variadic
    variadic.report(rep, "T9", ["genc.c", "ccode.c"], floor=900, what="in the C generator and printer")
    try:
        t4(rep, tier)
    except AnalysisBroken as e:
        # T4 needs every builtin form to be expressible; when an earlier rule already reports a violation (for example
        # a table row naming a runtime entry that does not exist, which also breaks T4's probe unit) report that instead
        if not rep.violations:
            raise
        rep.note("T4 not evaluated: %s" % e)
    return rep
