"""C18: a successful exit means every requested output was written.

Typestate of write streams: every stream obtained from the open-or-die helper
in a write mode is released, on every path, only through the checked close
(fileCloseOut: tests ferror and fclose's result, reports through the file
error handler = fatal, non-zero exit).  A bare fclose on such a stream, or a
path that leaks it, is a violation.
"""
from . import common
from .common import AnalysisBroken, strip, strip_noop, walk, calls, CFG, const_value

EXPLANATION = (
    "O1 typestate: in every compiler unit, each call of fileMustOpen (fileWrOpen/fileWubOpen/... after macro expansion) or "
    "fopen whose mode argument is one of the write/append/update modes (mode strings read from the osIo*Mode initialisers) "
    "must, on every CFG path from the open to the function's exit, reach fileCloseOut(_, stream) for the variable that "
    "received the stream (or be passed straight to fileCloseOut / handed to libNew, which stores it in lib->file); a raw "
    "fclose on such a variable is a violation. O2: libWrite marks the library (rdOnly false, wrMode set) and libClose, under that assumption, passes "
    "libPutHeader and then fileCloseOut(lib->name, lib->file) on every path and never a raw fclose. O3: the checked close "
    "itself (evaluated as straight-line code for the two outcomes 'error indicator set, everything else succeeds' and 'only fclose "
    "fails': both must reach the handler call) tests ferror(file) and the result of fclose(file) and calls (*fileError) on failure; compFileError, the "
    "installed handler, ends in comsgFatal and no CFG path through it reaches its exit without that call. Scope: the outputs named by the property (-Fai -Fap -Fasy -Fao -Ffm -Flsp -Fc "
    "-Fjava -Fmain). O4: O3 relies on the stream's sticky error indicator surviving until the close, so every call of "
    "rewind/clearerr/freopen in the compiler must take a stream all of whose values in that function are read-mode opens (or a "
    "parameter frozen with its reason); gencpp.c (C++ stubs, raw fopen) is outside that list and reported as a note only.")

WRITE_CHARS = set("wa+")
SCOPE_NOTE_UNITS = {"gencpp.c"}


def write_modes(facts):
    modes = {}
    for n, v in facts.vars.items():
        if n.startswith("osIo") and n.endswith("Mode") and v.get("init") is not None:
            s = common.string_value(v["init"])
            if s is not None:
                modes[n] = s
    if len(modes) < 6:
        raise AnalysisBroken("osIo*Mode definitions not found in opsys.c")
    return modes


def mode_is_write(arg, modes):
    a = strip(arg)
    if a is None:
        return None
    if a["k"] == "DeclRefExpr" and a["n"] in modes:
        return bool(set(modes[a["n"]]) & WRITE_CHARS)
    if a["k"] == "StringLiteral":
        return bool(set(a.get("v") or "") & WRITE_CHARS)
    return None   # unknown (a parameter)


def var_of(n):
    s = strip(n)
    if s is not None and s["k"] == "DeclRefExpr" and s.get("dk") in ("var", "parm"):
        return s["did"], s["n"]
    return None


def check_close_helper(rep, f_file, f_axlcomp):
    fn = f_file.func("fileCloseOut")
    cs = [c.get("callee") for c in calls(fn["body"])]
    has_ferror = "ferror" in cs
    has_fclose = "fclose" in cs
    # result of fclose must be tested
    fclose_tested = False
    par = common.parents(fn["body"])
    for c in calls(fn["body"], "fclose"):
        p = par.get(c["id"])
        while p is not None and p["k"] in ("ParenExpr", "ImplicitCastExpr"):
            p = par.get(p["id"])
        if p is not None and p["k"] in ("BinaryOperator", "IfStmt", "UnaryOperator", "ConditionalOperator"):
            if p["k"] != "BinaryOperator" or p["op"] in ("!=", "==", "<", "||", "&&", "|", "=", "|="):
                fclose_tested = True
    indirect = [c for c in calls(fn["body"]) if c.get("via") == "fileError"]
    # scenario evaluation: the function is straight-line code over one flag; with the stream's error indicator set (and
    # every later call succeeding), and with only fclose failing, the handler call must be reached
    from .peval import peval

    def reaches_handler(outcome):
        env = {}

        def lookup(n, e):
            if n["k"] == "CallExpr" and n.get("callee") in outcome:
                return outcome[n["callee"]]
            return None

        hit = [False]

        def run_(st):
            if st is None:
                return
            k = st["k"]
            if k == "CompoundStmt":
                for x in st["c"]:
                    run_(x)
            elif k == "DeclStmt":
                for d in st.get("decls", []):
                    if d.get("init") is not None:
                        v = peval(d["init"], env, lookup)
                        if v is None:
                            raise AnalysisBroken("fileCloseOut: initialiser of %s is not decided by ferror/fflush/fclose alone" % d["n"])
                        env[d["n"]] = v
            elif k == "BinaryOperator" and st["op"] == "=":
                l = strip(st["c"][0])
                v = peval(st["c"][1], env, lookup)
                if l is None or l["k"] != "DeclRefExpr" or v is None:
                    raise AnalysisBroken("fileCloseOut: assignment at line %d not understood" % st["l"])
                env[l["n"]] = v
            elif k == "CompoundAssignOperator" and st["op"] == "|=":
                l = strip(st["c"][0])
                v = peval(st["c"][1], env, lookup)
                if l is None or v is None:
                    raise AnalysisBroken("fileCloseOut: assignment at line %d not understood" % st["l"])
                env[l["n"]] = env.get(l["n"], 0) | v
            elif k == "IfStmt":
                c = peval(st["c"][0], env, lookup)
                if c is None:
                    raise AnalysisBroken("fileCloseOut: condition at line %d is not decided by ferror/fflush/fclose alone" % st["l"])
                run_(st["c"][1] if c else st["c"][2])
            elif k in ("CStyleCastExpr", "ParenExpr", "ImplicitCastExpr"):
                run_(st["c"][0])
            elif k == "CallExpr":
                if st.get("via") == "fileError":
                    hit[0] = True
            elif k in ("NullStmt", "ReturnStmt"):
                pass
            else:
                raise AnalysisBroken("fileCloseOut: statement %s at line %d not understood" % (k, st["l"]))
        run_(fn["body"])
        return hit[0]
    sc1 = reaches_handler({"ferror": 1, "fflush": 0, "fclose": 0})
    sc2 = reaches_handler({"ferror": 0, "fflush": 0, "fclose": -1})
    if sc1 and sc2:
        rep.ok("O3", "fileCloseOut:scenarios", sample={"error-indicator-set": "handler called", "fclose-fails": "handler called"})
    else:
        rep.violation("O3", "fileCloseOut:scenarios", "file.c:%d (fileCloseOut)" % fn["l"],
                      "evaluating fileCloseOut with %s does not reach the (*fileError) call: a write error recorded on the stream "
                      "is dropped at the only place that turns it into a failure status"
                      % ("ferror(file) != 0 and fflush/fclose succeeding" if not sc1 else "only fclose(file) failing"))
    # the scenario evaluation above decides whether both results are honoured; the syntactic "fclose result is an operand of a
    # test" is only required when the scenarios could not be the deciding step
    ok = has_ferror and has_fclose and indirect and (fclose_tested or (sc1 and sc2))
    if ok:
        rep.ok("O3", "fileCloseOut", sample={"calls": cs, "handler": "(*fileError)"})
    else:
        rep.violation("O3", "fileCloseOut", "file.c:%d" % fn["l"],
                      "the checked close must test ferror(file) and the result of fclose(file) and call (*fileError) on "
                      "failure (ferror=%s fclose=%s tested=%s handler=%s)" % (has_ferror, has_fclose, fclose_tested, bool(indirect)))
    h = f_axlcomp.func("compFileError")
    hc = [c.get("callee") for c in calls(h["body"])]
    # the handler never returns: on the CFG there is no path from entry to exit that avoids comsgFatal
    fc = common.extract("axlcomp.c", cfg=["compFileError"])
    hcfg = CFG(fc.func("compFileError"))
    escape = hcfg.path_avoiding(hcfg.entry, None, lambda n: n["k"] == "CallExpr" and n.get("callee") == "comsgFatal", src_idx=-1)
    if escape is not None:
        rep.violation("O3", "compFileError:never-returns", "axlcomp.c:%d (compFileError)" % h["l"],
                      "the installed file error handler can return to its caller without raising the fatal error: fileCloseOut discards the "
                      "handler's result, so a failed write is followed by a normal exit with status 0", detail={"cfg_path": escape[:10]})
    else:
        rep.ok("O3", "compFileError:never-returns")
    if "comsgFatal" in hc:
        rep.ok("O3", "compFileError")
    else:
        rep.violation("O3", "compFileError", "axlcomp.c:%d" % h["l"], "the installed file error handler no longer ends in comsgFatal")
    # the handler is installed
    inst = False
    for fn2 in f_axlcomp.funcs.values():
        if "body" in fn2:
            for c in calls(fn2["body"], "fileSetHandler"):
                a = strip(c["c"][1])
                if a is not None and a.get("n") == "compFileError":
                    inst = True
    if inst:
        rep.ok("O3", "handler-installed")
    else:
        rep.violation("O3", "handler-installed", "axlcomp.c", "fileSetHandler(compFileError) is no longer called")


def check_function(rep, unit, fn, modes, note_only=False):
    """O1 for one function."""
    opens = []
    for c in calls(fn["body"]):
        cal = c.get("callee")
        if cal in ("fileMustOpen", "fileTryOpen", "fopen") and len(c["c"]) >= 3:
            w = mode_is_write(c["c"][2], modes)
            if w:
                opens.append(c)
    if not opens:
        # raw fclose of something that is not a write stream is fine
        return 0
    par = common.parents(fn["body"])
    cfg = CFG(fn)
    n = 0
    for oc in opens:
        n += 1
        key = "%s:%s:open@%s" % (unit, fn["n"], common.render(oc["c"][1]))
        where = "%s:%d (%s)" % (unit, oc["l"], fn["n"])
        # what receives the stream?
        p = par.get(oc["id"])
        child = oc
        while p is not None and p["k"] in ("ParenExpr", "ImplicitCastExpr", "CStyleCastExpr"):
            child, p = p, par.get(p["id"])
        target = None
        if p is not None and p["k"] == "BinaryOperator" and p["op"] == "=" and p["c"][1]["id"] == child["id"]:
            target = var_of(p["c"][0])
            if target is None:
                t = strip(p["c"][0])
                if t is not None and t["k"] == "UnaryOperator" and t["op"] == "*":
                    target = ("deref", common.render(t))   # *out = fopen(...): handed to the caller
        elif p is not None and p["k"] == "CallExpr":
            cal = p.get("callee")
            if cal == "fileCloseOut":
                rep.ok("O1", key, sample={"site": where, "how": "stream passed straight to fileCloseOut"})
                continue
            if cal == "libNew":
                rep.ok("O1", key, sample={"site": where, "how": "stream handed to libNew -> lib->file, closed by libClose (O2)"})
                continue
        elif p is not None and p["k"] == "DeclStmt":
            pass
        if p is not None and p["k"] == "ReturnStmt":
            rep.ok("O1", key, nontrivial=False)
            continue
        if target is None:
            for d in (p.get("decls", []) if p is not None else []):
                if d.get("init") is not None and d["init"]["id"] == child["id"]:
                    target = (d["did"], d["n"])
        if target is None or target[0] == "deref":
            msg = "stream opened for writing is not bound to a local variable the analysis can follow"
            if note_only:
                rep.note("%s: %s" % (where, msg))
            else:
                rep.violation("O1", key, where, msg)
            continue
        did, name = target

        def is_checked_close(x, did=did):
            if x["k"] == "CallExpr" and x.get("callee") == "fileCloseOut" and len(x["c"]) >= 3:
                v = var_of(x["c"][2])
                return v is not None and v[0] == did
            return False

        def is_raw_close(x, did=did):
            if x["k"] == "CallExpr" and x.get("callee") == "fclose" and len(x["c"]) >= 2:
                v = var_of(x["c"][1])
                return v is not None and v[0] == did
            return False

        raw = [x for x in walk(fn["body"]) if is_raw_close(x)]
        if raw:
            msg = ("stream '%s' opened for writing is closed with a bare fclose (line %d): a failed write or close goes "
                   "unnoticed and the compiler can exit 0 with an incomplete file" % (name, raw[0]["l"]))
            if note_only:
                rep.note("%s: %s" % (where, msg))
            else:
                rep.violation("O1", key, where, msg)
            continue
        if oc["id"] not in cfg.where:
            raise AnalysisBroken("open call at %s not found in the CFG" % where)
        b, j = cfg.where[oc["id"]]
        # a re-assignment of the variable by another write-mode open ends the obligation of this one only if closed before
        def edge_ok(bid, succ, did=did):
            # after the open-or-die helper returned, the stream variable is non-null:
            # `if (X)` takes its true edge, `if (!X)` its false edge
            ce = cfg.cond_edges(bid)
            if ce is None or ce[0] is None:
                return True
            cond, t, f = ce
            c = strip(cond)
            neg = False
            if c is not None and c["k"] == "UnaryOperator" and c["op"] == "!":
                neg, c = True, strip(c["c"][0])
            v = var_of(c) if c is not None else None
            if v is not None and v[0] == did and t != f:
                return succ == (f if neg else t)
            return True

        path = cfg.path_avoiding(b, None, is_checked_close, src_idx=j, edge_ok=edge_ok)
        if path is not None:
            msg = ("there is a path from this open to the end of %s on which stream '%s' is never released through "
                   "fileCloseOut (blocks %s)" % (fn["n"], name, path[:12]))
            if note_only:
                rep.note("%s: %s" % (where, msg))
            else:
                rep.violation("O1", key, where, msg, detail={"cfg_path": path})
        else:
            rep.ok("O1", key, sample={"site": where, "stream": name, "rule": "every path open->exit passes fileCloseOut(_, %s)" % name})
    return n


CLEARERS = {"rewind": 0, "clearerr": 0, "clearerr_unlocked": 0, "freopen": 2}


def clear_sites(unit, fn, modes):
    """O4 facts: calls that reset a stream's sticky error indicator, with the
    origin of the stream argument as far as it is visible in the function."""
    out = []
    for c in calls(fn["body"]):
        cal = c.get("callee")
        if cal not in CLEARERS or len(c["c"]) <= CLEARERS[cal] + 1:
            continue
        arg = c["c"][CLEARERS[cal] + 1]
        v = var_of(arg)
        origin = "other"
        if v is not None:
            s = strip(arg)
            if s.get("dk") == "parm":
                origin = "param"
            else:
                # every value the variable receives in this function: read-mode open or a null constant
                srcs = []
                for x in walk(fn["body"]):
                    if x["k"] == "BinaryOperator" and x["op"] == "=" and var_of(x["c"][0]) == v:
                        srcs.append(strip(x["c"][1]))
                    for d in (x.get("decls", []) if x["k"] == "DeclStmt" else []):
                        if d["did"] == v[0] and d.get("init") is not None:
                            srcs.append(strip(d["init"]))
                good = bool(srcs)
                for r in srcs:
                    if r is None:
                        good = False
                    elif r["k"] == "CallExpr" and r.get("callee") in ("fileMustOpen", "fileTryOpen", "fopen") and len(r["c"]) >= 3 \
                            and mode_is_write(r["c"][2], modes) is False:
                        continue
                    elif common.const_value(r) == 0:
                        continue
                    else:
                        good = False
                origin = "read-open" if good else "other"
        out.append({"unit": unit, "fn": fn["n"], "line": c["l"], "callee": cal, "stream": common.render(arg), "origin": origin})
    return out


def check_libclose(rep, f_lib):
    fn = f_lib.func("libClose")
    cfg = CFG(fn)

    def member(n):
        s = strip(n)
        return s["n"] if s is not None and s["k"] == "MemberExpr" else None

    # assume a library opened by libWrite: lib->rdOnly == 0 and lib->wrMode != 0 (libWrite is checked below)
    pruned = 0
    for bid, b in cfg.blocks.items():
        cond = cfg.ids.get(b.get("cond")) if b.get("cond") else None
        if cond is not None and len(b["succs"]) == 2:
            if member(cond) == "rdOnly":
                cfg.succ[bid] = [s for s in b["succs"][1:] if s is not None]
                pruned += 1
            elif member(cond) == "wrMode":
                cfg.succ[bid] = [s for s in b["succs"][:1] if s is not None]
                pruned += 1
    if pruned == 0:
        raise AnalysisBroken("libClose: no test of lib->rdOnly / lib->wrMode found")
    lw = f_lib.func("libWrite")
    sets = [x for x in walk(lw["body"]) if x["k"] == "BinaryOperator" and x["op"] == "=" and member(x["c"][0]) == "wrMode"
            and common.const_value(x["c"][1]) not in (None, 0)]
    opens = [c for c in calls(lw["body"], "libNew") if common.const_value(c["c"][2]) == 0]
    if sets and opens:
        rep.ok("O2", "libWrite:marks-write-mode")
    else:
        rep.violation("O2", "libWrite:marks-write-mode", "lib.c:%d (libWrite)" % lw["l"],
                      "libWrite must create the library with rdOnly false and set wrMode, which is what makes libClose write "
                      "the header and use the checked close")

    def is_close(x):
        if x["k"] == "CallExpr" and x.get("callee") == "fileCloseOut" and len(x["c"]) >= 3:
            a = strip(x["c"][2])
            return a is not None and a["k"] == "MemberExpr" and a["n"] == "file"
        return False

    def is_hdr(x):
        return x["k"] == "CallExpr" and x.get("callee") == "libPutHeader"

    def is_raw(x):
        return x["k"] == "CallExpr" and x.get("callee") == "fclose"

    where = "lib.c:%d (libClose)" % fn["l"]
    p1 = cfg.path_avoiding(cfg.entry, None, is_close, src_idx=-1)
    if p1 is not None:
        rep.violation("O2", "libClose:checked-close", where,
                      "in write mode (lib->rdOnly == 0) there is a path through libClose that never calls "
                      "fileCloseOut(lib->name, lib->file)", detail={"cfg_path": p1})
    else:
        rep.ok("O2", "libClose:checked-close")
    p2 = cfg.path_avoiding(cfg.entry, is_close, is_hdr, src_idx=-1)
    if p2 is not None:
        rep.violation("O2", "libClose:header-first", where,
                      "in write mode the library is closed on a path that has not written the header (libPutHeader)")
    else:
        rep.ok("O2", "libClose:header-first")
    p3 = cfg.path_avoiding(cfg.entry, is_raw, lambda x: False, src_idx=-1)
    if p3 is not None:
        rep.violation("O2", "libClose:raw-close", where, "in write mode libClose reaches a bare fclose")
    else:
        rep.ok("O2", "libClose:raw-close")
    # libNew stores its FILE* parameter into lib->file
    ln = f_lib.func("libNew")
    stored = False
    for x in walk(ln["body"]):
        if x["k"] == "BinaryOperator" and x["op"] == "=":
            l = strip(x["c"][0])
            if l is not None and l["k"] == "MemberExpr" and l["n"] == "file" and var_of(x["c"][1]) is not None:
                stored = True
    if stored:
        rep.ok("O2", "libNew:owns-file")
    else:
        rep.violation("O2", "libNew:owns-file", "lib.c:libNew", "libNew no longer stores its FILE* into lib->file")


class _Rec:
    """Records obligations in a worker process (picklable)."""

    def __init__(self):
        self.items = []

    def ok(self, rule, key, nontrivial=True, sample=None):
        self.items.append(("ok", rule, key, nontrivial, sample))

    def violation(self, rule, key, where, msg, detail=None):
        self.items.append(("violation", rule, key, where, msg, detail))

    def note(self, msg):
        self.items.append(("note", msg))


def _unit_digest(f):
    """Worker: per-unit part of O1 (run in a separate process)."""
    modes = _MODES
    referenced = set()
    for fn in f.funcs.values():
        if "body" in fn:
            for x in walk(fn["body"]):
                if x["k"] == "DeclRefExpr" and x.get("dk") == "fn":
                    referenced.add(x["n"])
    for v in f.vars.values():
        if v.get("init") is not None:
            for x in walk(v["init"]):
                if x["k"] == "DeclRefExpr" and x.get("dk") == "fn":
                    referenced.add(x["n"])
    u = f.unit
    per_fn = {}
    nfuncs = 0
    clearers = []
    for name, fn in f.funcs.items():
        if "body" not in fn or fn.get("file", "").endswith(".h"):
            continue
        if not fn["file"].endswith(u):
            continue
        nfuncs += 1
        clearers += clear_sites(u, fn, modes)
        if u == "file.c" and name in ("fileMustOpen", "fileTryOpen", "fileIsOpenable"):
            continue   # the helpers themselves: they return the stream or close a probe opened with the caller's mode
        strict, lax = _Rec(), _Rec()
        n = check_function(strict, u, fn, modes, note_only=False)
        if n:
            check_function(lax, u, fn, modes, note_only=True)
            per_fn[name] = (n, strict.items, lax.items)
    extra = None
    if u == "lib.c":
        r = _Rec(); check_libclose(r, f); extra = ("lib", r.items)
    return {"referenced": referenced, "per_fn": per_fn, "nfuncs": nfuncs, "extra": extra, "clearers": clearers}


_MODES = None


def _replay(rep, items):
    for it in items:
        if it[0] == "ok":
            rep.ok(it[1], it[2], nontrivial=it[3], sample=it[4])
        elif it[0] == "violation":
            rep.violation(it[1], it[2], it[3], it[4], detail=it[5])
        else:
            rep.note(it[1])


def o5(rep):
    """-Fc asks for the generated C to be kept.  After compiling it to objects emitTheObject tidies up the C files it does not have
    to keep; when the keep condition holds (emitKeep[FTYPENO_C], not the aldormain unit) no C file may be removed: the main file,
    the header and the numbered parts of a split unit are all part of the requested output."""
    from .peval import peval
    f = common.extract("emit.c", trees=["emitTheObject"], cfg=["emitTheObject"])
    fn = f.func("emitTheObject")
    cfg = common.CFG(fn)

    # locals assigned exactly once in the function (a flag computed before the test)
    once = {}
    for x in walk(fn["body"]):
        if x["k"] == "BinaryOperator" and x["op"] == "=":
            l = strip(x["c"][0])
            if l is not None and l["k"] == "DeclRefExpr" and l.get("dk") not in ("param", "parm"):
                once.setdefault(l["n"], []).append(x["c"][1])
        elif x["k"] == "DeclStmt":
            for d in x.get("decls", []):
                if d.get("init") is not None:
                    once.setdefault(d["n"], []).append(d["init"])

    def lookup(n, env):
        if n["k"] == "ArraySubscriptExpr" and (strip(n["c"][0]) or {}).get("n") == "emitKeep":
            return 1
        if n["k"] == "MemberExpr" and n["n"] == "isAXLmain":
            return 0
        if n["k"] == "DeclRefExpr" and len(once.get(n["n"], ())) == 1 and n["n"] not in env:
            return peval(once[n["n"]][0], dict(env, **{n["n"]: None}), lookup)
        return None

    def edge_ok(b, s_):
        ce = cfg.cond_edges(b)
        if ce is None:
            return True
        v = peval(ce[0], {}, lookup)
        if v is None:
            return True
        return s_ == (ce[1] if v else ce[2])
    removes = cfg.events(lambda n: n["k"] == "CallExpr" and n.get("callee") == "fileRemove")
    if len(removes) < 2:
        raise AnalysisBroken("emitTheObject: the removal of the C files was not found")
    keeps = [y for y in walk(fn["body"]) if y["k"] == "ArraySubscriptExpr" and (strip(y["c"][0]) or {}).get("n") == "emitKeep"]
    if not keeps:
        raise AnalysisBroken("emitTheObject no longer consults emitKeep")
    esc = cfg.path_avoiding(cfg.entry, lambda n: n["k"] == "CallExpr" and n.get("callee") == "fileRemove", lambda n: False,
                            edge_ok=edge_ok)
    where = "emit.c:%d (emitTheObject)" % fn["l"]
    if esc is None:
        rep.ok("O5", "kept-c-output-not-removed", sample={"removals under the not-kept branch": len(removes)})
    else:
        rep.violation("O5", "kept-c-output-not-removed", where,
                      "with -Fc in force (emitKeep[FTYPENO_C], not the aldormain unit) a fileRemove is still reached in "
                      "emitTheObject: part of the C output the user asked to keep (the numbered files of a unit split by -Csmax, "
                      "which the kept main file and header refer to) is deleted and the compiler exits 0",
                      detail={"cfg_path": esc[:12]})


def o6(rep):
    """An output file name given by the user (-Fc=<file>: emitOutputFileName[ft]) is the name the output must have when the
    compiler exits 0.  The routines that move a temporary output to its source-derived name (emitFileRename) or clear the way for
    that (emitFileRemove) must not touch it, and emitFileName must not hand it to the generated aldormain unit (whose C file is
    written over it and then removed)."""
    from .peval import peval
    f = common.extract("emit.c", all_trees=True, all_cfg=True)

    def scenario(fname, named, axlmain, target):
        fn = f.func(fname)
        cfg = common.CFG(fn)

        def lookup(n, env, depth=0):
            if n["k"] == "ArraySubscriptExpr" and (strip(n["c"][0]) or {}).get("n") == "emitOutputFileName":
                return named
            if n["k"] == "MemberExpr" and n["n"] == "isAXLmain":
                return axlmain
            if n["k"] == "CallExpr" and depth < 3:
                # a predicate of the unit that spells the condition out: its value when every return that can be reached
                # under the same facts gives the same constant
                g = f.funcs.get(n.get("callee"))
                if g is not None and g.get("static") and g.get("cfg") and "body" in g:
                    vals = possible(g, depth + 1)
                    if vals is not None and len(vals) == 1:
                        return next(iter(vals))
            return None

        def possible(g, depth):
            gcfg = common.CFG(g)
            lk = lambda n, env: lookup(n, env, depth)
            vals = set()
            for bid, j, r in gcfg.return_blocks():
                if not r.get("c") or r["c"][0] is None:
                    return None
                reach = gcfg.path_avoiding(gcfg.entry, lambda n, r=r: n is r, lambda n: False, edge_ok=mk_edge_ok(gcfg, lk))
                if reach is None:
                    continue
                v = peval(r["c"][0], {}, lk)
                if v is None:
                    return None
                vals.add(int(bool(v)))
            return vals

        def mk_edge_ok(cfg_, lk):
            def edge_ok(b, s_):
                ce = cfg_.cond_edges(b)
                if ce is None:
                    return True
                v = peval(ce[0], {}, lk)
                if v is None:
                    return True
                return s_ == (ce[1] if v else ce[2])
            return edge_ok
        edge_ok = mk_edge_ok(cfg, lookup)
        if not cfg.events(target):
            raise AnalysisBroken("%s: the statement looked for is not there" % fname)
        return cfg.path_avoiding(cfg.entry, target, lambda n: False, edge_ok=edge_ok), fn
    is_call = lambda name: (lambda n: n["k"] == "CallExpr" and n.get("callee") == name)
    returns_named = lambda n: n["k"] == "ReturnStmt" and any(y["k"] == "ArraySubscriptExpr" and
                                                             (strip(y["c"][0]) or {}).get("n") == "emitOutputFileName" for y in walk(n))
    for key, fname, named, axl, target, msg in (
            ("named-output-not-renamed", "emitFileRename", 1, 0, is_call("fileRename"),
             "with a user-supplied output name emitFileRename still renames the file to the source-derived name: `-Fc=out.c -Fo` exits "
             "0 with t.c and no out.c"),
            ("named-output-not-preremoved", "emitFileRemove", 1, 0, is_call("fileRemove"),
             "with a user-supplied output name emitFileRemove still deletes the file of the source-derived name"),
            ("named-output-not-given-to-aldormain", "emitFileName", 1, 1, returns_named,
             "emitFileName returns the user-supplied name for the generated aldormain unit too: with -Fx its C file is written over "
             "the requested output and then removed")):
        esc, fn = scenario(fname, named, axl, target)
        if esc is None:
            rep.ok("O6", key)
        else:
            rep.violation("O6", key, "emit.c:%d (%s)" % (fn["l"], fname), msg, detail={"cfg_path": esc[:10]})


O9_WRITERS = ("emitOneJavaFile", "emitTheAbSyn", "emitTheAnnotatedAbSyn", "emitTheFoamExpr", "emitTheIncluded", "emitTheLisp",
              "emitTheOldAbSyn", "emitTheSymbolExpr")


def o9(rep):
    """A run that exits 0 has written each requested output itself: the writers of emit.c open the file, produce the text and
    close it through fileCloseOut (which reports a failed write) on every path.  A writer that leaves the file alone when it
    `already holds the text` makes the outcome depend on what an earlier -- possibly failed -- run left under that name: a file
    cut short by a full device is a prefix of the text, and is then kept with exit status 0.  For the writers listed (confirmed
    on today's tree) every path from entry to exit passes fileCloseOut."""
    f = common.extract("emit.c", all_trees=True, all_cfg=True)
    present = [n for n in O9_WRITERS if n in f.funcs and "body" in f.funcs[n]]
    rep.floor("single-file writers of emit.c", len(present), 7)
    for name in present:
        cfg = common.CFG(f.funcs[name])
        is_close = lambda e: e["k"] == "CallExpr" and e.get("callee") == "fileCloseOut"
        p = cfg.path_avoiding(cfg.entry, None, is_close) if cfg.events(is_close) else [cfg.entry]
        key = "output-always-written:%s" % name
        if p is None:
            rep.ok("O9", key)
        else:
            rep.violation("O9", key, "emit.c:%d (%s)" % (f.funcs[name]["l"], name),
                          "%s can return without writing and closing its output: whatever an earlier run left under the name is "
                          "kept -- after a run that failed while writing (device full, file-size limit, killed) that is a "
                          "truncated file, and the re-run exits 0 with it" % name, detail={"cfg_path": p[:10]})


def o10_digest(f):
    base = f.unit.split("/")[-1]
    out = {"nfun": 0, "sites": []}
    for name, fn in f.funcs.items():
        if "body" not in fn or not fn.get("file", "").endswith(base):
            continue
        out["nfun"] += 1
        for c in calls(fn["body"]):
            if c.get("callee") in ("setvbuf", "setbuf", "setbuffer") and len(c["c"]) >= 3:
                b = strip(c["c"][2])
                null = b is None or const_value(c["c"][2]) == 0 or (b["k"] in ("IntegerLiteral", "GNUNullExpr"))
                storage = None
                if not null:
                    for y in walk(c["c"][2]):
                        if y["k"] == "DeclRefExpr":
                            storage = y["n"]
                out["sites"].append((name, c["l"], c["callee"], null, storage))
    return out


def o10(rep):
    """Each open output has its own buffer: stdio allocates one per stream.  A buffer supplied by the program (setvbuf, setbuf)
    is storage the program must keep private to that stream for as long as it is open -- one array handed to every stream
    opened for writing is shared by any two that are open at once (with -Csmax the header stays open while the numbered parts
    are written), and the header is flushed with the last part's bytes: every write succeeds, the close succeeds, the exit
    status is 0 and a requested output has the wrong content.  No setvbuf/setbuf in the compiler supplies storage."""
    dig = common.map_units(common.compiler_units(), o10_digest, "compiler", all_trees=True)
    nfun = sum(d["nfun"] for d in dig.values())
    n = 0
    for u in sorted(dig):
        base = u.split("/")[-1]
        for name, line, callee, null, storage in dig[u]["sites"]:
            if null:
                rep.ok("O10", "stream-buffer-private:%s:%s@%d" % (base, name, line))
                continue
            n += 1
            rep.violation("O10", "stream-buffer-private:%s:%s" % (base, name), "%s:%d (%s)" % (base, line, name),
                          "%s gives the stream the program's own storage `%s`: every stream this function opens gets the same "
                          "array, so two outputs open at once (the split header and a numbered part under -Csmax) overwrite each "
                          "other's pending bytes; no write fails and the compiler exits 0 with a header holding part of a C file"
                          % (callee, storage))
    rep.floor("functions scanned for stream buffers", nfun, 5000)
    if n == 0:
        rep.ok("O10", "stream-buffer-private:none", sample={"functions": nfun})


def o8(rep):
    """The last step of an output written under a temporary name is the move to the requested name (emitFileRename ->
    fileRename -> osFileRename = rename(2)).  A failed move (the requested name is a directory, a read-only directory, ...)
    leaves the requested output missing; like a failed close it has to reach the file-error handler.  On the CFG of every
    function of file.c that calls osFileRename: from the call, following the failure side of each test of its result, the
    exit is not reachable without a call through `fileError`; a result that is never tested is a violation."""
    f = common.extract("file.c", all_trees=True, all_cfg=True)
    n = 0
    for name, fn in sorted(f.funcs.items()):
        if "body" not in fn or not fn.get("file", "").endswith("file.c"):
            continue
        cs = calls(fn["body"], "osFileRename")
        if not cs:
            continue
        par = common.parents(fn["body"])
        cfg = common.CFG(fn)
        for c in cs:
            n += 1
            key = "rename-failure-reported:%s" % name
            where = "file.c:%d (%s)" % (c["l"], name)
            # the variable holding the result (or the call tested directly)
            p_ = par.get(c["id"])
            while p_ is not None and p_["k"] in ("ParenExpr", "ImplicitCastExpr", "CStyleCastExpr"):
                p_ = par.get(p_["id"])
            var = None
            if p_ is not None and p_["k"] == "BinaryOperator" and p_["op"] == "=":
                var = (strip(p_["c"][0]) or {}).get("n")
            elif p_ is not None and p_["k"] == "DeclStmt":
                for d in p_.get("decls", []):
                    if d.get("init") is not None and any(y is c for y in walk(d["init"])):
                        var = d["n"]

            def pol(e):
                e = strip(e)
                if e is None:
                    return None
                if e.get("id") == c["id"] or (e["k"] == "DeclRefExpr" and var and e["n"] == var):
                    return True                       # non-zero: failed
                if e["k"] == "UnaryOperator" and e["op"] == "!":
                    v = pol(e["c"][0])
                    return None if v is None else (not v)
                if e["k"] == "BinaryOperator" and e["op"] in ("!=", "==", "<", ">") and const_value(e["c"][1]) == 0:
                    v = pol(e["c"][0])
                    return None if v is None else (v if e["op"] != "==" else (not v))
                return None
            tested = any(pol(cfg.cond_edges(b)[0]) is not None for b in cfg.blocks if cfg.cond_edges(b) is not None and cfg.cond_edges(b)[0] is not None)
            if not tested:
                rep.violation("O8", key, where,
                              "the result of osFileRename is discarded: when the move of a finished output to its requested name "
                              "fails (the name is a directory, the directory is read-only) the compiler carries on and exits 0 "
                              "with the output missing and its text left under a temporary name")
                continue
            ev = cfg.events(lambda e: e.get("id") == c["id"])
            b0, i0, _ = ev[0]

            def failing_side(bid, succ):
                ce = cfg.cond_edges(bid)
                if ce is None or ce[0] is None:
                    return True
                v = pol(ce[0])
                if v is None:
                    return True
                return succ == (ce[1] if v else ce[2])

            def handler(e):
                return e["k"] == "CallExpr" and e.get("callee") is None and any(y["k"] == "DeclRefExpr" and y["n"] == "fileError" for y in walk(e["c"][0]))
            pth = cfg.path_avoiding(b0, None, handler, src_idx=i0, edge_ok=failing_side)
            if pth is None:
                rep.ok("O8", key)
            else:
                rep.violation("O8", key, where, "a failed osFileRename can leave %s without the file-error handler being called" % name,
                              detail={"cfg_path": pth[:10]})
    rep.floor("moves of an output to its requested name (file.c)", n, 1)


def run(tier, only=None):
    global _MODES
    rep = common.Report("C18", tier, EXPLANATION)
    f_opsys = common.extract("opsys.c")
    _MODES = write_modes(f_opsys)
    units = common.compiler_units()
    dig = common.map_units(units, _unit_digest, all_cfg=True)
    rep.analysed_count("translation units", len(units))
    referenced = set()
    for d in dig.values():
        referenced |= d["referenced"]
    total = emit_sites = 0
    for u in sorted(dig):
        d = dig[u]
        rep.analysed_count("functions", d["nfuncs"])
        for name, (n, strict, lax) in sorted(d["per_fn"].items()):
            unref = name not in referenced     # debugger-only dump helpers: not an output of any compilation
            _replay(rep, lax if (u in SCOPE_NOTE_UNITS or unref) else strict)
            total += n
            if u == "emit.c":
                emit_sites += n
        if d["extra"]:
            _replay(rep, d["extra"][1])
    rep.floor("write-mode open sites in emit.c", emit_sites, 11)
    # O4: nothing resets the error indicator of a stream that may be a write stream
    import json, os
    allowed = json.load(open(os.path.join(os.path.dirname(__file__), "frozen", "c18_clearerr_params.json")))
    nclear = 0
    for u in sorted(dig):
        for cs in dig[u]["clearers"]:
            nclear += 1
            key = "%s:%s:%s(%s)" % (cs["unit"], cs["fn"], cs["callee"], cs["stream"])
            where = "%s:%d (%s)" % (cs["unit"], cs["line"], cs["fn"])
            if cs["origin"] == "read-open":
                rep.ok("O4", key, sample={"site": where, "how": "every value of the stream variable in this function is a read-mode open"})
            elif cs["origin"] == "param" and "%s:%s:%s" % (cs["unit"], cs["fn"], cs["stream"]) in allowed:
                rep.ok("O4", key, sample={"site": where, "how": "parameter: " + allowed["%s:%s:%s" % (cs["unit"], cs["fn"], cs["stream"])]})
            else:
                rep.violation("O4", key, where,
                              "%s() resets the sticky error indicator of stream %s, which is not provably a read-only stream: an earlier "
                              "failed write would be forgotten and the checked close (O3: ferror at fileCloseOut) would report success"
                              % (cs["callee"], cs["stream"]))
    rep.floor("error-indicator reset sites examined (rewind/clearerr/freopen)", nclear, 2)
    f_file = common.extract("file.c", trees=["fileCloseOut"])
    f_axl = common.extract("axlcomp.c", all_trees=True)
    check_close_helper(rep, f_file, f_axl)
    rep.assumptions += ["fprintf/fputs/fwrite failures set the stream's sticky error indicator (ISO C), which fileCloseOut tests",
                        "streams are not smuggled out of the opening function other than into libNew"]
    o5(rep)
    o6(rep)
    o8(rep)
    o9(rep)
    o10(rep)
    from . import staticbuf
    staticbuf.report(rep, "O7")        # file names handed to rename/remove/open are distinct strings
    return rep
