"""Results that live in a function's static storage must not be used twice at once.

Several helpers return a pointer into storage owned by the function itself
(`static Buffer buf` in fnameUnparseStatic, `static char result[]` in the
terminal-escape formatters): the next call overwrites what the previous call
returned.  Passing two such results of the same function to one call makes
both arguments the same string: `osFileRename(fnameUnparseStatic(from),
fnameUnparseStatic(to))` renames a file to itself, and the compiler goes on as
if the output had been moved into place.

Instances: every call expression of the compiler.  A function *returns static
storage* when it has a `static` local (not const) and one of its return
expressions mentions it -- directly, through a local assigned from it, or as
an argument of a call whose result is returned -- or when it returns the
result of such a function applied to its own parameter (wrappers, fixpoint
across units).  Rule: no call has two arguments that contain calls to the same
static-storage function (or to a wrapper of it).
"""
from . import common
from .common import walk, strip, calls, render

KNOWN = {}          # function -> root static-storage function (filled across rounds)


def _returns_static(fn):
    statics = set()
    for x in walk(fn["body"]):
        if x["k"] == "DeclStmt":
            for d in x.get("decls", []):
                if d.get("static") and "const" not in (d.get("t") or ""):
                    statics.add(d["n"])
    if not statics:
        return False
    carriers = set(statics)
    grew = True
    while grew:
        grew = False
        for x in walk(fn["body"]):
            if x["k"] == "BinaryOperator" and x["op"] == "=":
                l = strip(x["c"][0])
                if l is not None and l["k"] == "DeclRefExpr" and l["n"] not in carriers and \
                        any(y["k"] == "DeclRefExpr" and y["n"] in carriers for y in walk(x["c"][1])):
                    carriers.add(l["n"]); grew = True
            elif x["k"] == "DeclStmt":
                for d in x.get("decls", []):
                    if d.get("init") is not None and d["n"] not in carriers and \
                            any(y["k"] == "DeclRefExpr" and y["n"] in carriers for y in walk(d["init"])):
                        carriers.add(d["n"]); grew = True
    for r in walk(fn["body"]):
        if r["k"] == "ReturnStmt" and r.get("c") and r["c"][0] is not None:
            if any(y["k"] == "DeclRefExpr" and y["n"] in carriers for y in walk(r["c"][0])):
                return True
    return False


def digest(f):
    base = f.unit.split("/")[-1]
    out = {"static": [], "wrappers": [], "sites": []}
    for name, fn in f.funcs.items():
        if "body" not in fn or not fn.get("file", "").endswith(base):
            continue
        rt = (fn.get("ret") or "")
        ptr_ret = "*" in rt or rt in ("String", "CString")
        if ptr_ret and _returns_static(fn):
            out["static"].append(name)
        elif ptr_ret:
            # wrapper: every return is (a local holding) the result of a known static-storage function
            rets = [r for r in walk(fn["body"]) if r["k"] == "ReturnStmt" and r.get("c") and r["c"][0] is not None]
            roots = set()
            ok = bool(rets)
            for r in rets:
                e = strip(r["c"][0])
                cal = None
                if e is not None and e["k"] == "CallExpr":
                    cal = e.get("callee")
                elif e is not None and e["k"] == "DeclRefExpr":
                    vals = [x["c"][1] for x in walk(fn["body"]) if x["k"] == "BinaryOperator" and x["op"] == "=" and
                            (strip(x["c"][0]) or {}).get("n") == e["n"]]
                    vals += [d["init"] for x in walk(fn["body"]) if x["k"] == "DeclStmt" for d in x.get("decls", [])
                             if d["n"] == e["n"] and d.get("init") is not None]
                    cs = set((strip(v) or {}).get("callee") if (strip(v) or {}).get("k") == "CallExpr" else None for v in vals)
                    if len(cs) == 1:
                        cal = cs.pop()
                if cal in KNOWN:
                    roots.add(KNOWN[cal])
                else:
                    ok = False
            if ok and len(roots) == 1:
                out["wrappers"].append((name, roots.pop()))
        for c in calls(fn["body"]):
            seen = {}
            for i, a in enumerate(c["c"][1:]):
                for y in walk(a):
                    if y["k"] == "CallExpr" and y.get("callee") in KNOWN:
                        seen.setdefault(KNOWN[y.get("callee")], set()).add(i)
            for root, idxs in seen.items():
                if len(idxs) >= 2:
                    out["sites"].append((name, c["l"], c.get("callee"), root, sorted(idxs)))
    return out


def report(rep, rule, units=None, floor_functions=2):
    global KNOWN
    KNOWN = {}
    units = units or common.compiler_units()
    dig = None
    for _round in range(4):
        dig = common.map_units(units, digest, "compiler", all_trees=True)
        found = dict(KNOWN)
        for u in dig:
            for nm in dig[u]["static"]:
                found.setdefault(nm, nm)
            for nm, root in dig[u]["wrappers"]:
                found.setdefault(nm, root)
        if found == KNOWN:
            break
        KNOWN = found              # inherited by the workers of the next round (fork)
    n = 0
    for u in sorted(dig):
        base = u.split("/")[-1]
        for fn, line, callee, root, idxs in dig[u]["sites"]:
            n += 1
            rep.violation(rule, "static-result-used-twice:%s:%s:%s" % (base, fn, callee), "%s:%d (%s)" % (base, line, fn),
                          "arguments %s of %s both hold the result of %s, which lives in that function's static storage: the "
                          "second call overwrites the first result, so both arguments are the same string (a rename of a file "
                          "to itself does nothing, and the caller carries on as if the output had been moved into place)"
                          % (", ".join(str(i + 1) for i in idxs), callee, root))
    rep.floor("functions returning their own static storage", len(set(KNOWN.values())), floor_functions)
    if n == 0:
        rep.ok(rule, "static-result-used-twice:none", sample={"static-storage functions": sorted(KNOWN)[:12]})
    return n
