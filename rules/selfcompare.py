"""Self-comparison: a comparison predicate applied to two textually identical,
side-effect-free operands (tformEqual(symeExporter(a), symeExporter(a)),
x == x) is constant, so the test it was meant to make is not made.  The
repository has none today; one appearing in a unification / duplicate-detection
predicate silently merges things that differ.

Expected count is zero, so every run first matches a generated positive
example (two sites) to show the rule is alive.
"""
import os
import re

from . import common
from .common import AnalysisBroken, walk, strip, render

PREDICATE = re.compile(r"(Equal|EQ$|NE$|LT$|GT$|LE$|GE$|Cmp|Compare|Satisf|^tfSat|Implies|Subsumes|Same|Match)")
REL_OPS = ("==", "!=", "<", ">", "<=", ">=")
IMPURE = re.compile(r"(\+\+|--|Next|Read|Get[A-Z]?c\b|getc|New|Alloc|Copy|Gen)")


def digest(f):
    out = []
    base = f.unit.split("/")[-1]
    for name, fn in f.funcs.items():
        if "body" not in fn or not fn.get("file", "").endswith(base):
            continue
        for x in walk(fn["body"]):
            if x["k"] == "CallExpr" and len(x["c"]) >= 3 and x.get("callee") and PREDICATE.search(x["callee"]):
                args = [render(strip(a)) for a in x["c"][1:]]
                for i in range(len(args)):
                    for j in range(i + 1, len(args)):
                        a = args[i]
                        if a == args[j] and "sizeof(...)" not in a and not re.match(r"^\(*-?[\w]*\)*$", a) and not IMPURE.search(a):
                            out.append((name, x["l"], x["callee"], a[:60]))
                        elif a == args[j] and re.match(r"^[A-Za-z_]\w*$", a) and (strip(x["c"][1 + i]) or {}).get("dk") in ("var", "parm", None) \
                                and (strip(x["c"][1 + i]) or {}).get("k") == "DeclRefExpr":
                            out.append((name, x["l"], x["callee"], a))
            elif x["k"] == "BinaryOperator" and x["op"] in REL_OPS and x.get("mac") is None and x.get("imac") is None:
                a, b = render(strip(x["c"][0])), render(strip(x["c"][1]))
                if a == b and "sizeof(...)" not in a and not re.match(r"^-?\d+$", a) and not IMPURE.search(a):
                    out.append((name, x["l"], x["op"], a[:60]))
    return out


def positive_control():
    probe = os.path.join(common.BUILD, "selfcmp_probe.%d.c" % os.getpid())
    with open(probe, "w") as o:
        o.write("struct s { int v; };\nextern int verifEqual(int, int);\nextern int acc(struct s *);\n"
                "int verif_probe(struct s *a, struct s *b) { return verifEqual(acc(a), acc(a)) + (a->v == a->v) + verifEqual(acc(a), acc(b)); }\n")
    try:
        f = common.extract(probe, "compiler", all_trees=True)
    finally:
        if os.path.exists(probe):
            os.unlink(probe)
    got = digest(f)
    if len(got) != 2:
        raise AnalysisBroken("self-comparison rule: the positive example matched %d sites instead of 2" % len(got))


def report(rep, rule, units, config="compiler", what=""):
    positive_control()
    dig = common.map_units(units, digest, config, all_trees=True)
    n = 0
    for u in sorted(dig):
        base = u.split("/")[-1]
        if not dig[u]:
            rep.ok(rule, "no-self-comparison:" + base, nontrivial=False)
        for fn, line, what_, text in dig[u]:
            n += 1
            rep.violation(rule, "self-comparison:%s:%s" % (base, fn), "%s:%d (%s)" % (base, line, fn),
                          "`%s` compares `%s` with itself: the result does not depend on the second object, so the distinction this "
                          "test was written to make (two imports from different domains, two types, two nodes) is never made" % (what_, text))
    rep.analysed_count("units scanned for self-comparisons %s" % what, len(units))
    return n
