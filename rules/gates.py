"""Gate edges in a clang CFG: the edge of a two-way branch that is taken when a
named test says 'no errors so far' (or any other named condition holds).

A gate is (kind, name, passing_truth):
  ('call', 'compIsMoreAfterFront', True)  pass on the edge where the call is true
  ('call', 'comsgErrorCount', False)      pass on the edge where the count is zero
  ('var',  'totErrors', 'zero')           pass on the edge where the variable == 0
"""
from .common import strip, const_value


def _truth_of(cond, gates):
    """Return (gate, truth) if `cond` being true means gate-expression has the
    given truth value; None when cond does not test a gate."""
    c = strip(cond)
    if c is None:
        return None
    neg = False
    while c is not None and c["k"] == "UnaryOperator" and c["op"] == "!":
        neg = not neg
        c = strip(c["c"][0])
    if c is None:
        return None
    if c["k"] == "CallExpr":
        for g in gates:
            if g[0] == "call" and c.get("callee") == g[1]:
                return g, (not neg)
    if c["k"] == "DeclRefExpr":
        for g in gates:
            if g[0] == "var" and c["n"] == g[1]:
                return g, (not neg)           # truth = variable non-zero
    if c["k"] == "BinaryOperator" and c["op"] in ("==", "!=", ">", "<", ">=", "<="):
        a, b = strip(c["c"][0]), strip(c["c"][1])
        for x, y, flip in ((a, b, False), (b, a, True)):
            k = const_value(y)
            if x is None or k is None:
                continue
            name = x.get("callee") if x["k"] == "CallExpr" else (x.get("n") if x["k"] == "DeclRefExpr" else None)
            for g in gates:
                if name != g[1] or (g[0] == "call") != (x["k"] == "CallExpr"):
                    continue
                op = c["op"]
                if flip:
                    op = {"<": ">", ">": "<", "<=": ">=", ">=": "<=", "==": "==", "!=": "!="}[op]
                # truth of "x is non-zero" when cond holds (only for comparisons against 0 / 1 that decide it)
                nz = None
                if k == 0:
                    nz = {"!=": True, ">": True, "==": False, "<=": False}.get(op)
                elif k == 1:
                    nz = {">=": True, "<": False}.get(op)
                if nz is None:
                    continue
                return g, (nz if not neg else (not nz))
    return None


def passing_edges(cfg, gates):
    """Set of (block, successor) edges that are taken only when a gate passes,
    and the set of failing edges."""
    passing, failing = set(), set()
    for bid in cfg.blocks:
        ce = cfg.cond_edges(bid)
        if ce is None or ce[0] is None:
            continue
        cond, t, f = ce
        r = _truth_of(cond, gates)
        if r is None or t == f:
            continue
        g, truth_when_cond_true = r
        want = g[2]
        if want == "zero":
            want = False
        # edge t is taken when cond true => gate expression has truth `truth_when_cond_true`
        if truth_when_cond_true == want:
            passing.add((bid, t)); failing.add((bid, f))
        else:
            passing.add((bid, f)); failing.add((bid, t))
    return passing, failing


def ungated_path(cfg, src_block, src_idx, dst_pred, gates, avoid_pred=None):
    """A path from just after (src_block, src_idx) to an element satisfying
    dst_pred (or to the exit when dst_pred is None) that uses no passing edge
    of any gate and no element satisfying avoid_pred; None if there is none."""
    passing, _ = passing_edges(cfg, gates)
    return cfg.path_avoiding(src_block, dst_pred, avoid_pred or (lambda n: False), src_idx=src_idx,
                             edge_ok=lambda b, s: (b, s) not in passing)
