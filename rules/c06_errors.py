"""C06: ill-typed programs are rejected (error discipline + gating).

S1  every diagnostic whose catalogue class is error/fatal (ALDOR_E_*, ALDOR_F_*)
    is raised through an entry point that increments the error counter;
S2  no middle/back-end phase and no link/run step is reachable except through
    an 'error count is zero' test; the semantic phases of the front end are
    separated from what precedes them by such a test;
S3  when the total is positive the clean-up of partial outputs is reached.
"""
import json
import os

from . import common, gates
from .common import AnalysisBroken, strip, walk, calls, const_value, render

EXPLANATION = (
    "S1: whole compiler. Every call whose Msg argument is a message of catalogue class E or F (macro name ALDOR_E_*/ALDOR_F_* "
    "of the literal, a local variable assigned only such messages, or a ?: of them) and whose callee raises a diagnostic must "
    "reach a counting entry point (comsgError/NError/VError/Fatal/VFatal, or a wrapper that forwards its Msg parameter only "
    "to those; wrappers are inferred by a fixpoint over the call graph). Four deliberate downgrade sites are frozen with a "
    "reason each. S2: in the CFG of compSourceFile, compInteractiveLoop and compGLoopEval no call of compFileMiddle/"
    "compFileSave/compFileBack/fint is reachable without crossing the passing edge of compIsMoreAfterFront; in "
    "compFilesLoop emitLink/emitInterp/emitRun only behind totErrors == 0; compIsMoreAfterSyntax/Include return non-false "
    "only past comsgErrorCount() == 0; in compFileFront the scope binder and the type inferencer are separated from every "
    "other phase call by an error test. S3: compFilesLoop cannot reach its end with totErrors > 0 without emitAllDone. "
    "S4 (fold identity): wherever a loop accumulates conditions with v = ablogOr(.., v) or v = ablogAnd(.., v), the value v has when "
    "the loop is entered is the neutral element of that operator (ablogFalse() / ablogTrue()). S5 (known-condition context): every "
    "ablogAndPush(&ctx, &save, test, polarity) is followed by the matching ablogAndPop before the next push in the same function "
    "(or, for the array idiom, popped by a later loop), and two pushes for the same test in one function have opposite polarity "
    "(then-branch true, else-branch false). S6: in tfSatMap0 all four component comparisons of a function type (argument and "
    "return, dependent and non-dependent branch) pass the inner mask computed by tfSatInner(mask). S7: ablogAnd/ablogOr, tisefAnd/tisefOr and abNewAndAll/abNewOrAll are "
    "isomorphic under the And/Or renaming. Not decided: whether the type checker finds every violation.")

FROZEN = os.path.join(os.path.dirname(__file__), "frozen")
COUNTING = {"comsgError", "comsgNError", "comsgVError", "comsgFatal", "comsgVFatal"}
NONCOUNTING = {"comsgWarning", "comsgWarnPos", "comsgNWarning", "comsgVWarning", "comsgVWarnPos", "comsgRemark",
               "comsgNRemark", "comsgVRemark"}
# text look-ups / printers that raise nothing
NEUTRAL = {"comsgString", "comsgName", "comsgText", "comsgFPrintf", "comsgVFPrintf", "bloopMsgFPrintf", "helpFPrintf",
           "comsgOkRemark", "comsgOkWarning", "comsgSelectState", "comsgMessagesForMsg", "bloopSendMsg", "comsgNote",
           "comsgVNote", "msgGet", "msgName", "msgNumber", "msgByAName", "msgMax", "fgets"}


def msgname(a):
    s = strip(a)
    if s is not None and s["k"] == "IntegerLiteral":
        for m in (s.get("imac"), s.get("mac")):
            if m and m.startswith("ALDOR_") and len(m.split("_")) >= 3:
                return m
    return None


def msg_classes(a, varmsgs):
    """Set of message names an argument expression can denote."""
    s = strip(a)
    if s is None:
        return set()
    m = msgname(s)
    if m:
        return {m}
    if s["k"] == "ConditionalOperator":
        return msg_classes(s["c"][1], varmsgs) | msg_classes(s["c"][2], varmsgs)
    if s["k"] == "DeclRefExpr" and s.get("did") in varmsgs:
        return set(varmsgs[s["did"]])
    return set()


def s1_digest(f):
    """Per unit: call sites with message arguments; parameter forwarding facts."""
    sites = []
    forwards = []     # (function, param index, callee, callee arg index)
    for name, fn in f.funcs.items():
        if "body" not in fn or not fn["file"].endswith(f.unit):
            continue
        params = {p["did"]: i for i, p in enumerate(fn["params"])}
        varmsgs = {}
        for x in walk(fn["body"]):
            tgt = rhs = None
            if x["k"] == "BinaryOperator" and x["op"] == "=":
                tgt, rhs = strip(x["c"][0]), x["c"][1]
            if tgt is not None and tgt["k"] == "DeclRefExpr" and tgt.get("dk") == "var" and not tgt.get("g"):
                m = msg_classes(rhs, {})
                if m:
                    varmsgs.setdefault(tgt["did"], set()).update(m)
            if x["k"] == "DeclStmt":
                for d in x["decls"]:
                    if d.get("init") is not None:
                        m = msg_classes(d["init"], {})
                        if m:
                            varmsgs.setdefault(d["did"], set()).update(m)
        for c in calls(fn["body"]):
            callee = c.get("callee")
            if callee is None:
                # comsgNotePoint(comsgVError, ...) style: function passed as argument is handled by name below
                continue
            for i, a in enumerate(c["c"][1:]):
                ms = msg_classes(a, varmsgs)
                if ms:
                    sites.append({"unit": f.unit, "func": name, "line": c["l"], "callee": callee, "arg": i, "msgs": sorted(ms),
                                  "fnargs": [strip(z).get("n") for z in c["c"][1:] if strip(z) is not None and strip(z).get("dk") == "fn"]})
                s = strip(a)
                if s is not None and s["k"] == "DeclRefExpr" and s.get("did") in params:
                    forwards.append((name, params[s["did"]], callee, i))
    return {"sites": sites, "forwards": forwards}


def classify_wrappers(forwards):
    """(function, param) -> set of {'count','nocount'} by fixpoint."""
    cls = {}
    # Msg position of the base entry points: second parameter (index 1), except the V-forms likewise
    base = {}
    for n in COUNTING:
        base[(n, 1)] = {"count"}
    for n in NONCOUNTING:
        base[(n, 1)] = {"nocount"}
    cls.update(base)
    changed = True
    while changed:
        changed = False
        for fn, pi, callee, ai in forwards:
            tgt = cls.get((callee, ai))
            if not tgt:
                continue
            cur = cls.setdefault((fn, pi), set())
            if not tgt <= cur:
                cur |= tgt
                changed = True
    return cls


def s1(rep, dig):
    forwards = [x for d in dig.values() for x in d["s1"]["forwards"]]
    cls = classify_wrappers(forwards)
    frozen = json.load(open(os.path.join(FROZEN, "c06_downgrades.json")))
    sites = [s for d in dig.values() for s in d["s1"]["sites"]]
    n_ef = complying = 0
    for s in sorted(sites, key=lambda s: (s["unit"], s["line"])):
        ef = [m for m in s["msgs"] if m.split("_")[1] in ("E", "F")]
        if not ef:
            continue
        callee = s["callee"]
        c = cls.get((callee, s["arg"]))
        where = "%s:%d (%s)" % (s["unit"], s["line"], s["func"])
        key = "%s:%s:%s" % (s["unit"], s["func"], ef[0])
        if callee == "comsgNotePoint":
            c = {"count"} if any(n in COUNTING for n in s["fnargs"]) else ({"nocount"} if s["fnargs"] else None)
        if c is None:
            if callee in NEUTRAL or callee.startswith(("bput", "terrorPut")):
                continue
            rep.note("S1: %s passes %s to %s, which does not raise a diagnostic (not classified)" % (where, ef[0], callee))
            continue
        n_ef += 1
        if c == {"count"}:
            complying += 1
            rep.ok("S1", "%s@%d" % (key, s["line"]), nontrivial=True,
                   sample={"site": where, "message": ef[0], "entry": callee} if complying <= 3 else None)
        else:
            fk = "%s:%s" % (s["func"], ef[0])
            if fk in frozen:
                rep.note("S1 frozen downgrade %s: %s" % (fk, frozen[fk]))
                continue
            rep.violation("S1", key, where,
                          "message %s has catalogue class %s (error) but is raised through %s, which does not count it: the "
                          "program is accepted and the compiler exits 0" % (ef[0], ef[0].split("_")[1], callee))
    rep.floor("class-E/F diagnostics raised through a counting entry point", complying, 190)
    rep.analysed_count("diagnostic call sites with an E/F message", n_ef)


def find_calls(cfg, names):
    return cfg.events(lambda n: n["k"] == "CallExpr" and n.get("callee") in names)


MORE_GATES = [("call", "compIsMoreAfterFront", True), ("call", "compIsMoreAfterSyntax", True)]
ERR_GATES = [("call", "comsgErrorCount", False), ("call", "compIsMoreAfterSyntax", True),
             ("call", "compIsMoreAfterInclude", True), ("call", "compIsMoreAfterFront", True)]


def s2(rep, f):
    # (a) back end only behind compIsMoreAfterFront
    nb = 0
    for fname in ("compSourceFile", "compInteractiveLoop", "compGLoopEval"):
        fn = f.func(fname)
        cfg = common.CFG(fn)
        targets = find_calls(cfg, {"compFileMiddle", "compFileSave", "compFileBack", "fint"})
        if not targets:
            raise AnalysisBroken("%s no longer calls the middle/back end" % fname)
        for b, j, node in targets:
            nb += 1
            key = "gate:%s:%s" % (fname, node["callee"])
            p = gates.ungated_path(cfg, cfg.entry, -1, lambda n, node=node: n["id"] == node["id"], MORE_GATES)
            if p is not None:
                rep.violation("S2", key, "axlcomp.c:%d (%s)" % (node["l"], fname),
                              "%s is reachable without passing compIsMoreAfterFront(): the back end would run on a program "
                              "that was rejected" % node["callee"], detail={"cfg_path": p[:20]})
            else:
                rep.ok("S2", key + "@%d" % node["l"])
    rep.floor("gated back-end calls", nb, 7)
    # (b) link/run only when the total is zero
    fn = f.func("compFilesLoop")
    cfg = common.CFG(fn)
    tot = [("var", "totErrors", "zero")]
    for b, j, node in find_calls(cfg, {"emitLink", "emitInterp", "emitRun"}):
        key = "gate:compFilesLoop:%s" % node["callee"]
        p = gates.ungated_path(cfg, cfg.entry, -1, lambda n, node=node: n["id"] == node["id"], tot)
        if p is not None:
            rep.violation("S2", key, "axlcomp.c:%d (compFilesLoop)" % node["l"],
                          "%s is reachable without the test totErrors == 0" % node["callee"])
        else:
            rep.ok("S2", key)
    # (c) the predicates themselves
    for fname in ("compIsMoreAfterSyntax", "compIsMoreAfterInclude"):
        fn = f.func(fname)
        cfg = common.CFG(fn)
        bad = None
        for b, j, r in cfg.return_blocks():
            v = const_value(r["c"][0]) if r["c"] else None
            if v == 0:
                continue
            p = gates.ungated_path(cfg, cfg.entry, -1, lambda n, r=r: n["id"] == r["id"], [("call", "comsgErrorCount", False)])
            if p is not None:
                bad = r
        if bad is not None:
            rep.violation("S2", "predicate:" + fname, "axlcomp.c:%d (%s)" % (bad["l"], fname),
                          "%s can answer 'more to do' without first testing comsgErrorCount() == 0" % fname)
        else:
            rep.ok("S2", "predicate:" + fname)
    fn = f.func("compIsMoreAfterFront")
    cs = set(c.get("callee") for r in common.find(fn["body"], "ReturnStmt") for c in calls(r))
    if cs & {"compIsMoreAfterSyntax", "comsgErrorCount"}:
        rep.ok("S2", "predicate:compIsMoreAfterFront")
    else:
        rep.violation("S2", "predicate:compIsMoreAfterFront", "axlcomp.c:%d" % fn["l"],
                      "compIsMoreAfterFront no longer depends on compIsMoreAfterSyntax / the error count")
    # (d) semantic phases separated from everything before them by an error test
    fn = f.func("compFileFront")
    cfg = common.CFG(fn)
    phases = cfg.events(lambda n: n["k"] == "CallExpr" and (n.get("callee") or "").startswith("compPhase"))
    rep.floor("phase calls in compFileFront", len(phases), 10)
    for tname in ("compPhaseScoBind", "compPhaseTInfer"):
        tg = [x for x in phases if x[2]["callee"] == tname]
        if not tg:
            raise AnalysisBroken("compFileFront no longer calls %s" % tname)
        for tb, tj, tnode in tg:
            for pb, pj, pnode in phases:
                if pnode["id"] == tnode["id"]:
                    continue
                key = "front:%s-after-%s" % (tname, pnode["callee"])
                p = gates.ungated_path(cfg, pb, pj, lambda n, tnode=tnode: n["id"] == tnode["id"], ERR_GATES)
                if p is not None:
                    rep.violation("S2", key, "axlcomp.c:%d (compFileFront)" % tnode["l"],
                                  "%s can run after %s (line %d) without an intervening error test: scope binding / type "
                                  "inference would work on a tree that earlier phases rejected" % (tname, pnode["callee"], pnode["l"]))
                else:
                    rep.ok("S2", key + "@%d" % pnode["l"], nontrivial=True)


def s3(rep, f):
    fn = f.func("compFilesLoop")
    cfg = common.CFG(fn)
    p = gates.ungated_path(cfg, cfg.entry, -1, None, [("var", "totErrors", "zero")],
                           avoid_pred=lambda n: n["k"] == "CallExpr" and n.get("callee") == "emitAllDone")
    # the search starts before totErrors is initialised; only the part after the per-file loop matters, and there the
    # only way around emitAllDone is the edge "totErrors is zero", which is forbidden above
    if p is not None:
        rep.violation("S3", "cleanup", "axlcomp.c:%d (compFilesLoop)" % fn["l"],
                      "compFilesLoop can finish with totErrors > 0 without calling emitAllDone(): partial outputs stay behind",
                      detail={"cfg_path": p[:20]})
    else:
        rep.ok("S3", "cleanup")


FOLD_IDENTITY = {"ablogOr": "ablogFalse", "ablogAnd": "ablogTrue"}


def s45_digest(f):
    """S4 facts: accumulating folds over the condition logic; S5 facts: push/pop of the known-condition context."""
    folds, pushes = [], []
    for name, fn in f.funcs.items():
        if "body" not in fn or not fn.get("file", "").endswith(f.unit):
            continue
        par = None
        for lp in walk(fn["body"]):
            if lp["k"] not in ("ForStmt", "WhileStmt", "DoStmt"):
                continue
            body = lp["c"][-1] if lp["k"] != "DoStmt" else lp["c"][0]
            for x in walk(body):
                if x["k"] == "BinaryOperator" and x["op"] == "=":
                    lhs, rhs = strip(x["c"][0]), strip(x["c"][1])
                    if lhs is None or rhs is None or lhs["k"] != "DeclRefExpr" or rhs["k"] != "CallExpr":
                        continue
                    op = rhs.get("callee")
                    if op not in FOLD_IDENTITY:
                        continue
                    if not any(strip(a) is not None and strip(a).get("did") == lhs.get("did") for a in rhs["c"][1:]):
                        continue
                    # the last assignment to the accumulator before the loop, in the statement list that contains the loop
                    if par is None:
                        par = common.parents(fn["body"])
                    p = par.get(lp["id"])
                    init = None
                    if p is not None and p["k"] == "CompoundStmt":
                        for st in p["c"]:
                            if st is None:
                                continue
                            if st["id"] == lp["id"]:
                                break
                            for y in walk(st):
                                if y["k"] == "BinaryOperator" and y["op"] == "=" and strip(y["c"][0]) is not None \
                                        and strip(y["c"][0]).get("did") == lhs.get("did"):
                                    r = strip(y["c"][1])
                                    init = r.get("callee") if r is not None and r["k"] == "CallExpr" else common.render(r)
                                for d in (y.get("decls", []) if y["k"] == "DeclStmt" else []):
                                    if d.get("did") == lhs.get("did") and d.get("init") is not None:
                                        r = strip(d["init"])
                                        init = r.get("callee") if r is not None and r["k"] == "CallExpr" else common.render(r)
                    if lp["k"] == "ForStmt" and lp["c"][0] is not None:
                        for y in walk(lp["c"][0]):
                            if y["k"] == "BinaryOperator" and y["op"] == "=" and strip(y["c"][0]) is not None \
                                    and strip(y["c"][0]).get("did") == lhs.get("did"):
                                r = strip(y["c"][1])
                                init = r.get("callee") if r is not None and r["k"] == "CallExpr" else common.render(r)
                    folds.append((f.unit, name, lp["l"], lhs["n"], op, init))
        # push / pop
        for c in calls(fn["body"]):
            if c.get("callee") in ("ablogAndPush", "ablogAndPop"):
                a = [common.render(strip(z)) for z in c["c"][1:]]
                pushes.append((f.unit, name, c["l"], c["callee"], a))
    return {"folds": folds, "pushes": pushes}


def s45(rep, dig):
    nf = 0
    for u in sorted(dig):
        for unit, func, line, acc, op, init in dig[u]["s45"]["folds"]:
            nf += 1
            key = "fold-identity:%s:%s:%s" % (unit, func, acc)
            if init == FOLD_IDENTITY[op]:
                rep.ok("S4", key, sample={"site": "%s:%d" % (unit, line), "fold": "%s = %s(...,%s) starting from %s()" % (acc, op, acc, init)})
            else:
                rep.violation("S4", key, "%s:%d (%s)" % (unit, line, func),
                              "%s accumulates with %s but starts from %s; the neutral element of %s is %s(): starting from the "
                              "absorbing element makes the folded condition constant, so the check built on it accepts (or rejects) "
                              "everything" % (acc, op, init, op, FOLD_IDENTITY[op]))
    rep.floor("condition-logic folds", nf, 2)
    npush = 0
    for u in sorted(dig):
        byfn = {}
        for unit, func, line, cal, args in dig[u]["s45"]["pushes"]:
            byfn.setdefault((unit, func), []).append((line, cal, args))
        for (unit, func), evs in sorted(byfn.items()):
            evs.sort()
            open_ = None
            last_by_test = {}
            for line, cal, args in evs:
                where = "%s:%d (%s)" % (unit, line, func)
                if cal == "ablogAndPush" and len(args) >= 2 and "[" in args[1]:
                    # saved contexts kept in an array and popped by a second loop (conjunction of n tests)
                    npush += 1
                    base = args[1].split("[")[0]
                    key = "cond-context:%s:%s@array:%s" % (unit, func, base.strip("&( "))
                    if any(c2 == "ablogAndPop" and len(a2) >= 2 and a2[1].split("[")[0] == base and l2 > line for l2, c2, a2 in evs):
                        rep.ok("S5", key)
                    else:
                        rep.violation("S5", key, where, "contexts pushed into %s are never popped in this function" % base)
                    continue
                if cal == "ablogAndPop" and len(args) >= 2 and "[" in args[1]:
                    continue
                if cal == "ablogAndPush":
                    npush += 1
                    key = "cond-context:%s:%s@push%d" % (unit, func, npush)
                    if open_ is not None:
                        rep.violation("S5", key, where, "ablogAndPush while the context pushed at line %d has not been popped: the "
                                      "condition of one branch stays in force for the code after it" % open_[0])
                    open_ = (line, args)
                    if len(args) >= 4:
                        prev = last_by_test.get(args[2])
                        if prev is not None and prev == args[3]:
                            rep.violation("S5", key + ":polarity", where,
                                          "the two branches of the test `%s` are both analysed assuming it is %s" % (args[2], args[3]))
                        last_by_test[args[2]] = args[3]
                else:
                    if open_ is None or open_[1][:2] != args[:2]:
                        rep.violation("S5", "cond-context:%s:%s@pop-line%d" % (unit, func, line), where,
                                      "ablogAndPop does not match the preceding ablogAndPush")
                    else:
                        rep.ok("S5", "cond-context:%s:%s@%d" % (unit, func, open_[0]), nontrivial=True)
                    open_ = None
            if open_ is not None:
                rep.violation("S5", "cond-context:%s:%s@unpopped" % (unit, func), "%s:%d (%s)" % (unit, open_[0], func),
                              "ablogAndPush without a following ablogAndPop in this function")
    rep.floor("known-condition context pushes", npush, 12)


def s6(rep):
    """Function types: argument and return positions are compared with the inner mask (no value embeddings) in both the
    dependent and the non-dependent branch of tfSatMap0."""
    f = common.extract("tfsat.c", trees=["tfSatMap0"])
    fn = f.func("tfSatMap0")
    inner = None

    def from_inner(e):
        return e is not None and any(y.get("mac") == "tfSatInner" or y.get("imac") == "tfSatInner" for y in walk(e))
    for x in walk(fn["body"]):
        for d in (x.get("decls", []) if x["k"] == "DeclStmt" else []):
            if d.get("init") is not None and from_inner(d["init"]):
                inner = d["n"]
        if x["k"] == "BinaryOperator" and x["op"] == "=" and strip(x["c"][0]) is not None and strip(x["c"][0])["k"] == "DeclRefExpr" \
                and from_inner(x["c"][1]):
            inner = strip(x["c"][0])["n"]
    if inner is None:
        raise AnalysisBroken("tfSatMap0: `SatMask mask0 = tfSatInner(mask)` not found")
    cs = [c for c in calls(fn["body"], "tfSat")]
    if len(cs) < 4:
        raise AnalysisBroken("tfSatMap0: expected the four component comparisons (argument and return, dependent and non-dependent)")
    for i, c in enumerate(cs, 1):
        m = common.render(strip(c["c"][1]))
        key = "map-component-inner-mask@%d" % i
        if m == inner:
            rep.ok("S6", key, nontrivial=(i == 1))
        else:
            rep.violation("S6", key, "tfsat.c:%d (tfSatMap0)" % c["l"],
                          "a component of a function type (%s against %s) is compared with `%s` instead of the inner mask %s: value "
                          "embeddings (unary to tuple, any to none, ...) are then accepted inside a function type, so a function of the wrong "
                          "type is accepted as an argument" % (common.render(strip(c["c"][2]))[:30], common.render(strip(c["c"][3]))[:30], m, inner))


AND_OR_SIBLINGS = [("ablogic.c", "ablogAnd", "ablogOr"), ("ti_sef.c", "tisefAnd", "tisefOr"), ("absyn.c", "abNewAndAll", "abNewOrAll")]


def s7(rep):
    """The conjunction and disjunction cases of the condition logic and of the semantic-form inferencer are the same code up to
    the And/Or renaming."""
    from . import siblings
    pairs = [("@", "And"), ("@", "Or"), ("@", "and"), ("@", "or"), ("@", "AND"), ("@", "OR")]
    for unit, a, b in AND_OR_SIBLINGS:
        f = common.extract(unit, trees=[a, b])
        r = siblings.compare(f.func(a), f.func(b), pairs)
        key = "siblings:%s:%s~%s" % (unit, a, b)
        if r is None:
            rep.ok("S7", key)
        elif siblings.kind_of_difference(r) == "shape":
            raise AnalysisBroken("the siblings %s and %s no longer have the same shape; re-confirm by hand" % (a, b))
        else:
            i, ta, la, tb, lb, na, nb = r
            rep.violation("S7", key, "%s:%d (%s) / %s:%d (%s)" % (unit, la, a, unit, lb, b),
                          "%s and %s are the same algorithm with And/Or exchanged, but differ at token %d: `%s` against `%s`; one of the "
                          "two was changed without its sibling" % (a, b, i, ta, tb))


# Top-down handlers whose node carries its own result type (an explicit `:: T`, `@ T`, `pretend T`, Boolean for the logical
# operators, no value for import, the exception type for raise): the type is compared with the type the context requires
# before it becomes the node's unique type.  Confirmed by reading ti_tdn.c; the bottom-up pass filters most contexts but not
# return values, `=>` exits, the last expression of a body, or the right-hand side of a typed definition.
OWN_TYPE_HANDLERS = ("titdnCoerceTo", "titdnRestrictTo", "titdnPretendTo", "titdnNot", "titdnAnd", "titdnOr", "titdnImport",
                     "titdnRaise", "titdnHas")
# bottom-up handlers that fix a node's type to Boolean but whose node is never an expression in a value context
BOOLEAN_NOT_VALUE = {"tibupWhile": "an iterator clause: visited through the iterator loop of titdnRepeat/titdnCollect with tfBoolean"}


def boolean_nodes():
    """Node kinds whose bottom-up handler fixes the possible types to Boolean whatever the context (read from ti_bup.c)."""
    f = common.extract("ti_bup.c", all_trees=True)
    out = []
    for name, fn in sorted(f.funcs.items()):
        if "body" not in fn or not name.startswith("tibup") or len(fn["params"]) != 3:
            continue
        node = fn["params"][1]["n"]
        fixed = False
        for c in calls(fn["body"], "tibup0Generic"):
            a = strip(c["c"][3]) if len(c["c"]) > 3 else None
            if a is not None and a["k"] == "DeclRefExpr" and a["n"] == "tfBoolean":
                fixed = True
        for x in walk(fn["body"]):
            if x["k"] == "BinaryOperator" and x["op"] == "=" and (strip(x["c"][0]) or {}).get("mac") == "abTPoss":
                base = [y["n"] for y in walk(x["c"][0]) if y["k"] == "DeclRefExpr"]
                r = strip(x["c"][1])
                if base == [node] and r is not None and r["k"] == "CallExpr" and r.get("callee") == "tpossSingleton":
                    a = strip(r["c"][1])
                    if a is not None and a["k"] == "DeclRefExpr" and a["n"] == "tfBoolean":
                        fixed = True
        if fixed:
            out.append(name)
    return out


def s8(rep):
    bools = boolean_nodes()
    if len(bools) < 4:
        raise AnalysisBroken("ti_bup.c: fewer than 4 handlers fix a node to Boolean (%s)" % bools)
    handlers = list(OWN_TYPE_HANDLERS)
    for b in bools:
        if b in BOOLEAN_NOT_VALUE:
            rep.note("S8 frozen: %s: %s" % (b, BOOLEAN_NOT_VALUE[b]))
            continue
        t = "titdn" + b[len("tibup"):]
        if t not in handlers:
            handlers.append(t)          # a new always-Boolean node: its top-down handler owes the comparison too
    f = common.extract("ti_tdn.c", trees=handlers, cfg=handlers)
    delegates = {"titdn0Generic"}
    for name in handlers:
        fn = f.func(name)
        ps = [p["n"] for p in fn["params"]]
        if len(ps) != 3:
            raise AnalysisBroken("%s: parameters changed" % name)
        node, ctx = ps[1], ps[2]
        cfg = common.CFG(fn)
        where = "ti_tdn.c:%d (%s)" % (fn["l"], name)

        def is_set(n):
            if n["k"] != "BinaryOperator" or n["op"] != "=":
                return False
            l = strip(n["c"][0])
            if l is None or l.get("mac") != "abTUnique":
                return False
            base = [y for y in walk(l) if y["k"] == "DeclRefExpr"]
            return len(base) == 1 and base[0]["n"] == node

        def is_delegate(n):
            return n["k"] == "CallExpr" and n.get("callee") in delegates and len(n["c"]) > 3 and \
                (strip(n["c"][2]) or {}).get("n") == node
        plain_set = is_set

        def is_set(n, plain_set=plain_set, is_delegate=is_delegate):
            return plain_set(n) or is_delegate(n)

        def is_test(n):
            if n["k"] != "CallExpr" or n.get("callee") not in ("tfSatReturn", "tfSatValues", "tfSatisfies"):
                return False
            return any(y["k"] == "DeclRefExpr" and y["n"] == ctx for a in n["c"][2:3] for y in walk(a))
        sets = cfg.events(is_set)
        if not sets:
            raise AnalysisBroken("%s: no `abTUnique(%s) = ...`" % (name, node))
        own = [e for e in sets if not any(y["k"] == "DeclRefExpr" and y["n"] == ctx
                                          for y in walk(e[2]["c"][3] if e[2]["k"] == "CallExpr" else e[2]["c"][1]))]
        if not own:
            rep.violation("S8", "own-type-compared:%s" % name, where,
                          "the node's type is always the same (its bottom-up handler says so) but the top-down handler gives it the "
                          "type the context requires without comparing the two: in a position the bottom-up pass does not constrain "
                          "(a return value, an exit) the expression is accepted at any type")
            continue
        esc = cfg.path_avoiding(cfg.entry, is_set, is_test)
        key = "own-type-compared:%s" % name
        if esc is not None:
            rep.violation("S8", key, where,
                          "the node's own type becomes its unique type on a path that never compares it with the type the context "
                          "requires (tfSatReturn(..., %s)): where the bottom-up pass does not constrain the context (a return value, "
                          "an exit, the last expression of a body) an ill-typed program is accepted without a message" % ctx,
                          detail={"cfg_path": esc[:10]})
            continue
        # the failing side of the comparison does not reach the assignment
        bad = None
        for bid in cfg.blocks:
            ce = cfg.cond_edges(bid)
            if ce is None:
                continue
            c = strip(ce[0])
            neg = False
            while c is not None and c["k"] == "UnaryOperator" and c.get("op") == "!":
                neg = not neg
                c = strip(c["c"][0])
            if c is None or not is_test(c):
                continue
            fail = ce[1] if neg else ce[2]
            if cfg.path_avoiding(fail, is_set, lambda n: False) is not None:
                bad = bid
        if bad is None:
            rep.ok("S8", key)
        else:
            rep.violation("S8", key, where, "the unsatisfied side of the comparison with the context type still reaches "
                          "`abTUnique(%s) = ...`: the mismatch is computed and ignored" % node)
    rep.floor("own-type handlers", len(handlers), 9)


NAME_WIDE = ("ALDOR_E_ScoAssAndDef", "ALDOR_E_ScoAssAndRef")


def s11(rep):
    """`Cannot both assign and define x` and `... assign and reference ...` are rules about a NAME in a scope: a constant and a
    variable of the same name are rejected whatever their declared types.  The binder records uses per signature (DeclInfo) and
    scobindReconcileDecls folds them into per-name accumulators while it walks the signatures.  The two diagnostics must be
    decided from those accumulators after the walk -- a test inside the loop, or on one signature's own uses, accepts
    `k: Integer == 5; k: MachineInteger := 6`."""
    f = common.extract("scobind.c", trees=["scobindReconcileDecls"])
    fn = f.func("scobindReconcileDecls")
    par = common.parents(fn["body"])
    loops = [x for x in walk(fn["body"]) if x["k"] in ("ForStmt", "WhileStmt") and "declInfoList" in common.render(x["c"][1] if x["k"] == "ForStmt" else x["c"][0])]
    if len(loops) != 1:
        raise AnalysisBroken("scobindReconcileDecls: the walk over the signatures of the name was not recognised")
    loop = loops[0]
    inloop = set(y["id"] for y in walk(loop))
    acc = set()
    for x in walk(loop):
        if x["k"] == "BinaryOperator" and x["op"] == "=":
            l = strip(x["c"][0])
            if l is not None and l["k"] == "DeclRefExpr":
                acc.add(l["n"])
    for msg in NAME_WIDE:
        sites = []
        for c in calls(fn["body"]):
            if not (c.get("callee") or "").startswith("comsg"):
                continue
            if any(msg in (y.get("mac"), y.get("imac")) for a in c["c"][1:] for y in walk(a)):
                sites.append(c)
        key = "name-wide:%s" % msg[8:]
        where = "scobind.c:%d (scobindReconcileDecls)" % fn["l"]
        if not sites:
            rep.violation("S11", key, where, "no diagnostic %s is raised any more" % msg)
            continue
        good = False
        why = ""
        for c in sites:
            if c["id"] in inloop:
                why = "the test sits inside the walk over the signatures (line %d)" % c["l"]
                continue
            cur, cond = c, None
            while cur["id"] in par and cond is None:
                p_ = par[cur["id"]]
                if p_["k"] == "IfStmt" and any(y is cur for y in walk(p_["c"][1])):
                    cond = p_["c"][0]
                cur = p_
            names = set(y["n"] for y in walk(cond) if y["k"] == "DeclRefExpr") if cond is not None else set()
            if len(names & acc) >= 2 and not (names - acc):
                good = True
            else:
                why = "its condition `%s` is not a test of two per-name accumulators (%s)" % (common.render(cond)[:60] if cond else "none", sorted(acc))
        if good:
            rep.ok("S11", key)
        else:
            rep.violation("S11", key, "scobind.c:%d (scobindReconcileDecls)" % sites[0]["l"],
                          "%s must be decided for the name from what the whole walk over its signatures has found; %s: a "
                          "constant and an assignment whose declared types differ syntactically are then accepted" % (msg, why))


S13_REPORTERS = (
    "operatorErrMsg", "terrorApplyCondition", "terrorApplyNotAnalyzed", "terrorAssign", "terrorCoerceTo", "terrorIdCondition",
    "terrorImplicitSetBang", "terrorMeaningsOutOfScope", "terrorNoMeaningForId", "terrorNoMeaningForLit", "terrorNotEnoughExports",
    "terrorNotUniqueMeaning", "terrorNotUniqueType", "terrorSetBang", "terrorTypeConstFailed", "bputFirstExitTypes")
S13_MESSAGES = ("comsgError", "comsgNError", "comsgFatal", "comsgWarning", "comsgNWarning")


def s13(rep):
    """A type error is found in one phase (tibup/titdn mark the node) and told to the user in another: terror() looks at the
    marked node and calls the reporter for its kind.  The message the reporter sends is also the only thing that counts the
    error -- the phases that found it have already returned, and the driver looks at the count.  A reporter that returns early
    (no details wanted, nothing to format) therefore turns the rejection into an acceptance: exit status 0 and the object files
    written.  The reporters listed (confirmed on today's tree: every path from entry to exit passes a comsgError / comsgWarning
    or a call of another of them) must keep that shape."""
    f = common.extract("terror.c", all_trees=True, all_cfg=True)
    present = [n for n in S13_REPORTERS if n in f.funcs and "body" in f.funcs[n]]
    rep.floor("type-error reporters of terror.c", len(present), 14)
    always = set()
    pending = list(present)
    escapes = {}
    for _ in range(4):
        for name in list(pending):
            cfg = common.CFG(f.funcs[name])
            isr = lambda e: e["k"] == "CallExpr" and (e.get("callee") in S13_MESSAGES or e.get("callee") in always)
            p = cfg.path_avoiding(cfg.entry, None, isr) if cfg.events(isr) else [cfg.entry]
            if p is None:
                always.add(name)
                pending.remove(name)
                escapes.pop(name, None)
            else:
                escapes[name] = p
    for name in present:
        key = "reporter-always-reports:%s" % name
        if name in always:
            rep.ok("S13", key)
        else:
            rep.violation("S13", key, "terror.c:%d (%s)" % (f.funcs[name]["l"], name),
                          "%s can return without sending its message: the message is what counts the type error, so on that path "
                          "the ill-typed program is accepted -- no diagnostic, exit status 0, .ao/.c written (for the "
                          "missing-exports reporter: whenever details are switched off, -M1/-M0/-Mno-details)" % name,
                          detail={"cfg_path": escapes[name][:10]})


def s14(rep):
    """bufNew() gives an empty buffer whose characters are not terminated; bufChars(buf) is a string only after something has
    been put into it.  A reporter that builds its message in a fresh buffer and jumps to the sending call before the first
    write hands comsgError whatever the store contained: the diagnostic is garbage, or -- when the first byte happens to be
    NUL -- no message line at all (comsgReportLine drops an empty text), so the rejection names no position.  In terror.c, for
    every local initialised with bufNew(): no path from the bufNew to a message call taking bufChars(local) avoids every write
    into the buffer (any call that is handed the buffer)."""
    f = common.extract("terror.c", all_trees=True, all_cfg=True)
    n = 0
    for name, fn in sorted(f.funcs.items()):
        if "body" not in fn or not fn.get("file", "").endswith("terror.c") or not fn.get("cfg"):
            continue
        news = []
        for x in walk(fn["body"]):
            if x["k"] == "BinaryOperator" and x["op"] == "=" and (strip(x["c"][0]) or {}).get("k") == "DeclRefExpr":
                r = strip(x["c"][1])
                if r is not None and r["k"] == "CallExpr" and r.get("callee") == "bufNew":
                    news.append((strip(x["c"][0])["n"], x))
        if not news:
            continue
        cfg = common.CFG(fn)
        for var, st in news:
            def sends(e, var=var):
                return e["k"] == "CallExpr" and (e.get("callee") or "").startswith("comsg") and \
                    any(y["k"] == "CallExpr" and y.get("callee") == "bufChars" and (strip(y["c"][1]) or {}).get("n") == var
                        for a in e["c"][1:] for y in walk(a))

            def writes(e, var=var):
                return e["k"] == "CallExpr" and e.get("callee") not in ("bufChars", "bufNew", "bufFree") and \
                    not (e.get("callee") or "").startswith("comsg") and \
                    any((strip(a) or {}).get("k") == "DeclRefExpr" and strip(a)["n"] == var for a in e["c"][1:])
            if not cfg.events(sends):
                continue
            ev = cfg.events(lambda e: e.get("id") == st["id"])
            if not ev:
                raise AnalysisBroken("%s: the bufNew of %s is not in the CFG" % (name, var))
            b, i, _ = ev[0]
            n += 1
            p = cfg.path_avoiding(b, sends, writes, src_idx=i)
            key = "message-buffer-written:%s:%s" % (name, var)
            if p is None:
                rep.ok("S14", key)
            else:
                rep.violation("S14", key, "terror.c:%d (%s)" % (st["l"], name),
                              "a path from `%s = bufNew()` reaches the message call with bufChars(%s) before anything has been put "
                              "into the buffer: an empty Buffer is not terminated, so the diagnostic is whatever the store held -- "
                              "garbage, or no message line at all when the first byte is NUL (with -M1, -M0, -Mno-details)"
                              % (var, var), detail={"cfg_path": p[:10]})
    rep.floor("message buffers built in terror.c", n, 5)


def s15(rep):
    """`D has C1 and D has C2 ...` conditions guard conditional exports; ablogIsListImplied* answer whether *every* condition of
    a list follows from what is known.  The inner function retries after adding a fact derived through the category hierarchy
    for one element of the list -- and the retry, like the first attempt, is about the whole list.  Handing the retry a cursor
    into the list instead (the tail from the current element) forgets the unmet conditions before it: an operation exported
    under `if % has Ord then if % has Hsh` becomes usable where only the second is known, and the ill-typed program compiles.
    Every call of ablogIsListImplied0 / ablogIsListImpliedInner in ablogic.c whose caller has a list parameter passes that
    parameter itself, never a local cursor."""
    f = common.extract("ablogic.c", all_trees=True)
    n = 0
    for name, fn in sorted(f.funcs.items()):
        if "body" not in fn or not fn.get("file", "").endswith("ablogic.c"):
            continue
        lists = [p_["n"] for p_ in fn.get("params", []) if (p_.get("t") or "").endswith("List")]
        if not lists:
            continue
        for c in calls(fn["body"]):
            if c.get("callee") not in ("ablogIsListImplied0", "ablogIsListImpliedInner") or len(c["c"]) < 3:
                continue
            n += 1
            a = strip(c["c"][2])
            key = "whole-list-implied:%s@%d" % (name, n)
            if a is not None and a["k"] == "DeclRefExpr" and a.get("dk") == "parm" and a["n"] in lists:
                rep.ok("S15", key)
            else:
                rep.violation("S15", "whole-list-implied:%s" % name, "ablogic.c:%d (%s)" % (c["l"], name),
                              "%s asks whether `%s` is implied, not its own list `%s`: the conditions of the list that lie before "
                              "the cursor are forgotten, so an export guarded by two nested conditions is visible where only the "
                              "later one is known and the program that uses it is accepted"
                              % (name, render(a)[:40] if a else "?", lists[0]))
    rep.floor("whole-list implication queries in ablogic.c", n, 3)


S16_MERGED = ("tblElt", "stabGetEntry", "stabEntryAllSymes", "stabGetMeanings", "stabEntryGetSymes", "stabFindLevel")


def s17(rep):
    """`return` without a value in a function that returns one is an error (ALDOR_E_TinReturnNoVal).  Whether a value is wanted is
    a matter of the function's return type alone -- the `far type' the return is checked against.  The return *statement's* own
    context says nothing about it: every statement of a sequence but the last is in a no-value context.  A test that also asks
    the statement's context (tfIsNoValueContext(type, absyn)) accepts `if n > 3 then return; n + 1` in a function declared to
    return SingleInteger: no diagnostic, status 0, and code files for a function that falls off without a result.  In ti_tdn.c
    the error is raised under exactly `no value is given` and `the far type is not None`; no other predicate takes part."""
    f = common.extract("ti_tdn.c", all_trees=True)
    sites = []
    for name, fn in sorted(f.funcs.items()):
        if "body" not in fn or not fn.get("file", "").endswith("ti_tdn.c"):
            continue
        inits = {}
        for x in walk(fn["body"]):
            if x["k"] == "DeclStmt":
                for d in x.get("decls", []):
                    if d.get("init") is not None:
                        inits[d["n"]] = d["init"]
        for st in walk(fn["body"]):
            if st["k"] != "IfStmt":
                continue
            inner = [y for y in walk(st["c"][1]) if y["k"] == "IfStmt"]
            for c in calls(st["c"][1], "comsgError"):
                if any(any(z is c for z in walk(i_["c"][1])) for i_ in inner):
                    continue                                   # an inner `if` is the one that decides
                if any(y.get("mac") == "ALDOR_E_TinReturnNoVal" or y.get("n") == "ALDOR_E_TinReturnNoVal" for y in walk(c)):
                    sites.append((name, st, inits))
    if len(sites) != 1:
        raise AnalysisBroken("ti_tdn.c: ALDOR_E_TinReturnNoVal is raised at %d sites (one expected)" % len(sites))
    name, st, inits = sites[0]

    def atoms(e):
        e = strip(e)
        if e is not None and e["k"] == "BinaryOperator" and e["op"] == "&&":
            return atoms(e["c"][0]) + atoms(e["c"][1])
        return [e]

    def resolve(a):
        neg = False
        while a is not None and a["k"] == "UnaryOperator" and a["op"] == "!":
            neg, a = not neg, strip(a["c"][0])
        if a is not None and a["k"] == "DeclRefExpr" and a["n"] in inits:
            a = strip(inits[a["n"]])
        return neg, a

    where = "ti_tdn.c:%d (%s)" % (st["l"], name)
    seen_absent = seen_type = False
    # the conjuncts of the deciding `if` and of every `if` around it (nested ifs are a conjunction; on an else side, negated)
    conj = [(False, a) for a in atoms(st["c"][0])]
    par = common.parents(f.funcs[name]["body"])
    cur = st
    while cur["id"] in par:
        up = par[cur["id"]]
        if up["k"] == "IfStmt":
            if any(y is cur for y in walk(up["c"][1])):
                conj += [(False, a) for a in atoms(up["c"][0])]
            elif len(atoms(up["c"][0])) == 1:
                conj += [(True, atoms(up["c"][0])[0])]
        cur = up
    for flip, a in conj:
        neg, e = resolve(a)
        neg = neg != flip
        if e is not None and any(y.get("n") == "AB_Return" or y.get("mac") == "AB_Return" for y in walk(e)):
            continue                                           # `this is a return statement`: the context, not the judgement
        if e is None:
            raise AnalysisBroken(where + ": empty conjunct")
        if any(y.get("n") == "AB_Nothing" or y.get("mac") == "AB_Nothing" for y in walk(e)) and not neg:
            seen_absent = True
            continue
        foreign = sorted({y.get("callee") or "?" for y in walk(e) if y["k"] == "CallExpr" and y.get("mac") != "tfIsNone"})
        if any(y.get("mac") == "tfIsNone" for y in walk(e)) and neg and not foreign:
            seen_type = True
            continue
        if foreign:
            rep.violation("S17", "return-without-value-judged-by-the-return-type", where,
                          "the error for a `return` without a value also depends on %s: whether a value is wanted is decided by "
                          "the function's return type alone; the statement's own context is a no-value context for every "
                          "statement of a sequence but the last, so `if n > 3 then return; n + 1` in a function returning "
                          "SingleInteger is accepted without a diagnostic and code is generated for it" % ", ".join(foreign))
            return
        raise AnalysisBroken(where + ": conjunct `%s` of the test not understood" % render(e)[:60])
    if seen_absent and seen_type:
        rep.ok("S17", "return-without-value-judged-by-the-return-type")
    else:
        rep.violation("S17", "return-without-value-judged-by-the-return-type", where,
                      "the error for a `return` without a value is no longer raised under `no value given` and `the return type is "
                      "not None` (%s missing): a function declared to return a value may fall off a bare `return` undiagnosed"
                      % ("the test of the return type" if seen_absent else "the test for an absent value"))


def s16(rep):
    """`Does this add body itself define export f: T?` is the question behind the missing-exports error (tiAddSymes,
    terrorNotEnoughExports both ask stabGetDomainExportMod).  A level keeps two things: its own bindings (boundSymes, read by
    stabGetExportedSymes) and a table of entries per name -- and an entry is a merged working copy: stabGetEntry copies outer
    entries inward and stabSeeOuterImports adds outer meanings to every entry that has a constant of its own.  Answering the
    question from the entry credits the domain with a same-named constant of the file or of an enclosing add, the error is
    lost and the program that lacks the export compiles (Export not found at run time).  stabGetDomainExportMod walks the
    level's own bindings and consults no entry of the table."""
    f = common.extract("stab.c", trees=["stabGetDomainExportMod"])
    fn = f.func("stabGetDomainExportMod")
    own = bool(calls(fn["body"], "stabGetExportedSymes")) or any(y["k"] == "MemberExpr" and y["n"] == "boundSymes" for y in walk(fn["body"]))
    merged = [c for c in calls(fn["body"]) if c.get("callee") in S16_MERGED] + \
        [y for y in walk(fn["body"]) if y["k"] == "MemberExpr" and y["n"] == "tbl"]
    where = "stab.c:%d (stabGetDomainExportMod)" % fn["l"]
    if merged:
        m = merged[0]
        rep.violation("S16", "own-exports-from-own-bindings", "stab.c:%d (stabGetDomainExportMod)" % m["l"],
                      "the exports a domain defines are looked up through `%s`, the level's table of entries, which are merged "
                      "copies that also hold meanings of enclosing levels: a constant of the same name and type at file level "
                      "(or in an enclosing add) counts as the domain's own export, the missing-exports error is not raised and "
                      "the program compiles" % (m.get("callee") or "->tbl"))
    elif not own:
        raise AnalysisBroken("stabGetDomainExportMod no longer reads the level's own bindings (stabGetExportedSymes / boundSymes) "
                             "nor the table: where the domain's exports come from has to be re-derived by hand")
    else:
        rep.ok("S16", "own-exports-from-own-bindings")


def s12(rep):
    """A call is matched against a parameter list by tfSatAsMulti: a loop over the PARAMETERS finds for each one its argument
    (by position or by `name == value` keyword) or its default.  Arguments that no parameter took -- too many positional ones, or
    a keyword that names no parameter -- can only be noticed by counting what the loop consumed and comparing with the number of
    arguments.  The arity verdict (TFS_DifferentArity) after the loop must therefore be conditional on a quantity the loop
    updates; a test on the parameter and argument counts alone can never see a stray keyword once defaults are present
    (`scale(5, faktor == 4)` is then accepted with the default silently used)."""
    f = common.extract("tfsat.c", trees=["tfSatAsMulti"])
    fn = f.func("tfSatAsMulti")
    par = common.parents(fn["body"])
    loops = [x for x in walk(fn["body"]) if x["k"] == "ForStmt" and any(y["k"] == "DeclRefExpr" and y["n"] == "parmc" for y in walk(x["c"][1]))]
    if not loops:
        raise AnalysisBroken("tfSatAsMulti: the loop over the parameters (i < parmc) was not found")
    loop = loops[0]
    inloop = set(y["id"] for y in walk(loop))
    updated = set()
    for x in walk(loop["c"][-1]):
        t = None
        if x["k"] in ("BinaryOperator", "CompoundAssignOperator") and x["op"].endswith("=") and x["op"] not in ("==", "!=", "<=", ">="):
            t = strip(x["c"][0])
        elif x["k"] == "UnaryOperator" and x["op"] in ("++", "post++"):
            t = strip(x["c"][0])
        if t is not None and t["k"] == "DeclRefExpr":
            updated.add(t["n"])
    for x in walk(loop["c"][0]) if loop["c"][0] is not None else []:
        pass
    verdicts = []
    for c in walk(fn["body"]):
        if c["k"] != "BinaryOperator" or c["op"] != "=" or c["id"] in inloop:
            continue
        if any("TFS_DifferentArity" in (y.get("mac"), y.get("imac")) for y in walk(c["c"][1])):
            verdicts.append(c)
    if not verdicts:
        rep.violation("S12", "leftover-arguments-rejected", "tfsat.c:%d (tfSatAsMulti)" % fn["l"],
                      "no arity verdict (TFS_DifferentArity) is raised after the loop over the parameters: extra arguments are ignored")
        return
    ok = False
    cond_txt = ""
    for c in verdicts:
        cur = c
        while cur["id"] in par:
            p_ = par[cur["id"]]
            if p_["k"] == "IfStmt" and any(y is cur for y in walk(p_["c"][1])):
                names = set(y["n"] for y in walk(p_["c"][0]) if y["k"] == "DeclRefExpr")
                cond_txt = common.render(p_["c"][0])[:70]
                if names & (updated - {"i", "result"}) and "argc" in names:
                    ok = True
            cur = p_
    if ok:
        rep.ok("S12", "leftover-arguments-rejected", sample={"counted in the loop": sorted(updated - {"i", "result"})[:6]})
    else:
        rep.violation("S12", "leftover-arguments-rejected", "tfsat.c:%d (tfSatAsMulti)" % verdicts[0]["l"],
                      "the arity verdict after the loop over the parameters is decided by `%s`, which compares argc with nothing the "
                      "loop counts: an argument that no parameter consumed (a keyword naming no parameter of a callee that has "
                      "defaults) is silently dropped and the ill-formed call is accepted" % cond_txt)


def digest(f):
    return {"s1": s1_digest(f), "s45": s45_digest(f)}


def run(tier, only=None):
    rep = common.Report("C06", tier, EXPLANATION)
    units = common.compiler_units()
    dig = common.map_units(units, digest, all_trees=True)
    rep.analysed_count("translation units", len(units))
    s1(rep, dig)
    s45(rep, dig)
    s6(rep)
    s7(rep)
    s8(rep)
    s11(rep)
    s12(rep)
    s13(rep)
    s14(rep)
    s15(rep)
    s16(rep)
    s17(rep)
    from . import variant_dispatch
    variant_dispatch.report_absyn(rep, "S10", ["ti_bup.c", "ti_tdn.c", "ti_sef.c", "scobind.c", "abcheck.c"], 180)
    from . import selfcompare
    _c06 = [u for u in ("tinfer.c", "ti_bup.c", "ti_tdn.c", "ti_sef.c", "ti_top.c", "tfsat.c", "tform.c", "tposs.c", "terror.c", "scobind.c", "stab.c", "abcheck.c", "sefo.c", "syme.c", "freevar.c", "tqual.c", "absub.c", "ablogic.c", "tfcond.c", "tconst.c") if u in common.compiler_units()]
    selfcompare.report(rep, "S9", _c06, what="(type checker)")
    f = common.extract("axlcomp.c", all_cfg=True)
    s2(rep, f)
    s3(rep, f)
    rep.assumptions += ["catalogue class is read from the message macro's name (ALDOR_<class>_...), as comsgdb.msg defines it",
                        "compSavedFile (already compiled input) goes to the back end without a typing gate by design"]
    return rep
