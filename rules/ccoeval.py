"""Abstract evaluation of genc.c's builtin-call generator (gc0Builtin and the
functions it calls) for one row of ccBValInfoTable.

The generator builds C syntax with ccoNew(TAG, n, operand...) (all of the
ccoMod / ccoFCall / ccoMany2 / ccoIdOf / ccoIntOf helpers are macros over it).
For a fixed builtin tag every branch condition of the generator is a constant
(it tests the tag and fields of the tag's table row), so the constructed
syntax tree is a function of the row alone.  This module computes that tree
by walking the generator's AST: conditions are decided with rules.peval,
assignments to CCode locals are kept in an environment, and calls to other
gc0* helpers with a body are followed.  Operand *order* is therefore taken
from the source, not from a hard-coded reading.

Result: a CCode term
    ("arg", k)                     gccExpr(foam->foamBCall.argv[k])
    ("cast", k, type)              gc0TryCast(type, argv[k])
    ("id", name) ("int", n) ("null",)
    ("cco", "CCO_x", [terms])
or raises Unknown(reason) when the walk meets something it cannot decide
(loops, bug calls): the caller then treats the form as opaque.
"""
from . import common
from .common import strip, walk, const_value, string_value
from .peval import peval


class Unknown(Exception):
    pass


class _Return(Exception):
    def __init__(self, v):
        self.v = v


class _Break(Exception):
    pass


class Evaluator:
    def __init__(self, facts, rows_by_tagv, info_by_tagv, start):
        self.f = facts
        self.rows = rows_by_tagv          # tag value -> ccBValInfoTable row dict (cfunv, special, str)
        self.info = info_by_tagv
        self.start = start
        self.cco = {n: v for n, (e, v) in facts.enum_by_const.items() if n.startswith("CCO_")}
        self.cco_name = {v: n for n, v in self.cco.items()}
        self.followed = set()

    # -- integer side: conditions over the tag and its table row ------------
    def _lookup(self, n, env):
        if n["k"] == "MemberExpr" and n.get("n") in ("special", "cfun", "argCount", "macro"):
            arr = strip(n["c"][0])
            if arr is not None and arr["k"] == "ArraySubscriptExpr":
                base = strip(arr["c"][0])
                idx = peval(arr["c"][1], env["int"], lambda a, b: self._lookup(a, env))
                if base is not None and idx is not None:
                    tagv = idx + self.start if base.get("n") in ("ccBValInfoTable", "foamBValInfoTable") else None
                    if base.get("n") == "ccBValInfoTable" and tagv in self.rows and n["n"] in ("special", "cfun", "macro"):
                        r = self.rows[tagv]
                        if n["n"] == "macro":
                            return 1 if r["macro"] else 0
                        return r["special"] if n["n"] == "special" else self.cco.get(r["cfun"])
                    if base.get("n") == "foamBValInfoTable" and tagv in self.info and n["n"] == "argCount":
                        return self.info[tagv]["argCount"]
        return None

    def ival(self, n, env):
        return peval(n, env["int"], lambda a, b: self._lookup(a, env))

    # -- CCode side ---------------------------------------------------------
    def cval(self, n, env):
        n0 = n
        n = strip(n)
        if n is None:
            raise Unknown("empty expression")
        k = n["k"]
        if k == "DeclRefExpr":
            if n["n"] in env["cc"]:
                return env["cc"][n["n"]]
            raise Unknown("CCode variable %s has no known value (line %d)" % (n["n"], n["l"]))
        if k == "IntegerLiteral" and n["v"] == 0:
            return ("null",)
        if k == "CallExpr":
            cal = n.get("callee")
            a = n["c"][1:]
            if cal == "ccoNew":
                tag = self.ival(a[0], env)
                cnt = self.ival(a[1], env)
                if tag is None or cnt is None or tag not in self.cco_name:
                    raise Unknown("ccoNew with undetermined tag or count (line %d)" % n["l"])
                tname = self.cco_name[tag]
                if len(a) != 2 + cnt:
                    raise Unknown("ccoNew(%s, %d, ...) has %d operands (line %d)" % (tname, cnt, len(a) - 2, n["l"]))
                if tname in ("CCO_Id", "CCO_TypeId", "CCO_IntVal", "CCO_FloatVal", "CCO_CharVal", "CCO_StringVal"):
                    return self.leaf(tname, a[2], env)
                return ("cco", tname, [self.cval(x, env) for x in a[2:]])
            if cal == "ccoNewNode":
                tag, cnt = self.ival(a[0], env), self.ival(a[1], env)
                if tag is None or cnt is None or tag not in self.cco_name or not 0 <= cnt <= 16:
                    raise Unknown("ccoNewNode with undetermined tag or count (line %d)" % n["l"])
                return ("cco", self.cco_name[tag], [None] * cnt)
            if cal == "gccExpr":
                return ("arg", self.argindex(a[0], env))
            if cal in ("gc0TryCast", "gc0Cast"):
                return ("cast", self.argindex(a[1], env), self.ival(a[0], env))
            if cal == "gccUnhandled":
                raise Unknown("gccUnhandled: the generator gives up on this builtin")
            callee = self.f.funcs.get(cal)
            if callee is not None and "body" in callee and cal.startswith("gc0"):
                return self.call(callee, a, env)
            raise Unknown("call of %s (line %d) is not a syntax constructor" % (cal, n["l"]))
        raise Unknown("%s at line %d" % (k, n["l"]))

    def leaf(self, tname, sym, env):
        s = strip(sym)
        # symProbe(<string>, flags)
        if s is not None and s["k"] == "CallExpr" and s.get("callee") == "symProbe":
            x = strip(s["c"][1])
            sv = string_value(x)
            if sv is not None:
                return ("id", sv) if tname in ("CCO_Id", "CCO_TypeId") else ("lit", tname, sv)
            if x is not None and x["k"] == "CallExpr" and x.get("callee") == "strPrintf":
                v = self.ival(x["c"][2], env)
                if v is not None:
                    return ("int", v)
            # ccBValStr(tag): the row's string
            for m in walk(x):
                if m["k"] == "MemberExpr" and m.get("n") == "str":
                    r = self.rows.get(env["int"].get("tag"))
                    if r is not None:
                        return ("rowstr", tname, r["str"])
        raise Unknown("leaf %s with an operand that is not a literal or the row string (line %d)" % (tname, sym["l"]))

    def argindex(self, n, env):
        s = strip(n)
        if s is not None and s["k"] == "ArraySubscriptExpr":
            b = strip(s["c"][0])
            if b is not None and b["k"] == "MemberExpr" and b.get("n") == "argv":
                i = self.ival(s["c"][1], env)
                if i is not None:
                    return i
        if s is not None and s["k"] == "DeclRefExpr" and s["n"] in env["foamarg"]:
            return env["foamarg"][s["n"]]
        raise Unknown("operand is not foam->foamBCall.argv[const] (line %d)" % n["l"])

    def call(self, fn, args, env):
        self.followed.add(fn["n"])
        new = {"int": dict(getattr(self, "globals", {})), "cc": {}, "foamarg": {}}
        for p, a in zip(fn["params"], args):
            tc = p.get("t", "")
            if tc == "Foam":
                continue                      # the call node itself is passed through
            v = self.ival(a, env)
            if v is not None:
                new["int"][p["n"]] = v
        try:
            self.exec(fn["body"], new)
        except _Return as r:
            return r.v
        raise Unknown("%s ends without returning a value" % fn["n"])

    # -- statements ---------------------------------------------------------
    def exec(self, st, env):
        if st is None:
            return
        k = st["k"]
        if k == "CompoundStmt":
            for s in st["c"]:
                self.exec(s, env)
        elif k == "NullStmt":
            pass
        elif k == "DeclStmt":
            for d in st.get("decls", []):
                if d.get("init") is not None:
                    self.assign(d["n"], d.get("t", ""), d["init"], env)
        elif k == "BinaryOperator" and st["op"] == "=":
            lhs = strip(st["c"][0])
            if lhs is not None and lhs["k"] == "ArraySubscriptExpr":
                # ccoArgv(X)[i] = value
                base = [m for m in walk(lhs["c"][0]) if m["k"] == "DeclRefExpr"]
                i = self.ival(lhs["c"][1], env)
                argv = any(m["k"] == "MemberExpr" and m.get("n") == "argv" and m.get("rn") == "ccoNode" for m in walk(lhs["c"][0]))
                if len(base) == 1 and argv and i is not None and base[0]["n"] in env["cc"]:
                    node = env["cc"][base[0]["n"]]
                    if node[0] == "cco" and 0 <= i < len(node[2]):
                        node[2][i] = self.cval(st["c"][1], env)
                        return
                raise Unknown("store to %s (line %d)" % (common.render(st["c"][0])[:60], st["l"]))
            if lhs is None or lhs["k"] != "DeclRefExpr":
                raise Unknown("assignment to %s (line %d)" % (common.render(st["c"][0]), st["l"]))
            self.assign(lhs["n"], lhs.get("t", ""), st["c"][1], env)
        elif k == "BinaryOperator" and st["op"] == ",":
            self.exec(st["c"][0], env)
            self.exec(st["c"][1], env)
        elif k == "UnaryOperator" and st["op"] in ("++", "post++", "pre++", "--", "post--", "pre--"):
            v = strip(st["c"][0])
            if v is None or v["k"] != "DeclRefExpr" or v["n"] not in env["int"]:
                raise Unknown("increment of an undetermined variable (line %d)" % st["l"])
            env["int"][v["n"]] += 1 if "+" in st["op"] else -1
        elif k == "ForStmt":
            self.exec(st["c"][0], env)
            for _ in range(32):
                c = self.ival(st["c"][1], env)
                if c is None:
                    raise Unknown("loop condition `%s` (line %d) is not determined by the row" % (common.render(st["c"][1]), st["l"]))
                if not c:
                    break
                try:
                    self.exec(st["c"][3], env)
                except _Break:
                    break
                self.exec(st["c"][2], env)
            else:
                raise Unknown("loop at line %d does not end within 32 iterations" % st["l"])
        elif k in ("ParenExpr", "ImplicitCastExpr", "CStyleCastExpr"):
            self.exec(st["c"][0], env)
        elif k == "IfStmt":
            c = self.ival(st["c"][0], env)
            if c is None:
                raise Unknown("condition `%s` (line %d) does not depend on the tag and its row alone" % (
                    common.render(st["c"][0])[:80], st["l"]))
            self.exec(st["c"][1] if c else st["c"][2], env)
        elif k == "SwitchStmt":
            v = self.ival(st["c"][0], env)
            if v is None:
                raise Unknown("switch on `%s` (line %d) is not determined" % (common.render(st["c"][0]), st["l"]))
            groups = common.switch_cases(st)
            start = None
            for i, g in enumerate(groups):
                if any(lo == v and lon != "default" for lon, lo, hi in g["labels"]):
                    start = i
            if start is None:
                for i, g in enumerate(groups):
                    if any(lon == "default" for lon, lo, hi in g["labels"]):
                        start = i
            if start is None:
                return
            try:
                for g in groups[start:]:
                    for s in g["stmts"]:
                        self.exec(s, env)
            except _Break:
                pass
        elif k == "BreakStmt":
            raise _Break()
        elif k == "ReturnStmt":
            raise _Return(self.cval(st["c"][0], env))
        elif k == "CallExpr" and st.get("callee") in common.NORETURN_CALLS:
            raise Unknown("%s: the generator reports a bug for this builtin (line %d)" % (st.get("callee"), st["l"]))
        else:
            raise Unknown("statement %s at line %d" % (k, st["l"]))

    def assign(self, name, ty, rhs, env):
        if ty == "CCode":
            env["cc"][name] = self.cval(rhs, env)
            return
        if ty == "Foam":
            try:
                env["foamarg"][name] = self.argindex(rhs, env)
            except Unknown:
                env["foamarg"].pop(name, None)
            return
        v = self.ival(rhs, env)
        if v is None:
            env["int"].pop(name, None)
        else:
            env["int"][name] = v

    # -- entry ----------------------------------------------------------------
    def builtin_form(self, tagv, assume=None):
        """assume: values of globals the generator tests (e.g. gcvisStmtFCall)."""
        self.globals = dict(assume or {})
        fn = self.f.func("gc0Builtin")
        env = {"int": dict(self.globals, tag=tagv), "cc": {}, "foamarg": {}}
        pn = [p["n"] for p in fn["params"]]
        if pn[:1] != ["tag"]:
            env["int"] = {pn[0]: tagv}
        try:
            self.exec(fn["body"], env)
        except _Return as r:
            return r.v
        raise Unknown("gc0Builtin ends without returning a value")


def to_c_text(t, argnames):
    """C source of a CCode term (fully parenthesised), for the probe unit."""
    h = t[0]
    if h == "arg":
        return argnames[t[1]]
    if h == "cast":
        return argnames[t[1]]
    if h == "id":
        return t[1]
    if h == "rowstr":
        if not isinstance(t[2], str):
            raise Unknown("row string is not a literal")
        return t[2]
    if h == "int":
        return "%dL" % t[1]
    if h == "lit":
        return t[2]
    if h == "null":
        return ""
    if h == "cco":
        tag, a = t[1], t[2]
        if tag == "CCO_FCall":
            return "%s(%s)" % (to_c_text(a[0], argnames), to_c_text(a[1], argnames))
        if tag == "CCO_Many":
            return ", ".join(to_c_text(x, argnames) for x in a)
        raise Unknown("no C text for %s" % tag)
    raise Unknown("term %r" % (t,))


def to_tree(t, ops):
    """Expression tree (rules.trees vocabulary) of an operator-only CCode term."""
    h = t[0]
    if h == "arg":
        return ("arg", t[1])
    if h == "int":
        return ("int", t[1])
    if h == "cco":
        op = ops.get(t[1])
        if op is None:
            raise Unknown("operator kind of %s unknown" % t[1])
        kind, sym = op
        a = [to_tree(x, ops) for x in t[2]]
        if kind == "CCOK_Infix" and len(a) == 2:
            return ("bin", sym, a[0], a[1])
        if kind == "CCOK_Prefix" and len(a) == 1:
            return ("un", sym, a[0])
        raise Unknown("%s applied to %d operands" % (t[1], len(a)))
    raise Unknown("term %r has no operator-only tree" % (t,))


def has_call(t):
    if t[0] == "cco":
        return t[1] == "CCO_FCall" or any(has_call(x) for x in t[2])
    return False
