"""C04: every builtin means the same wherever it is evaluated.

Enumerates every FoamBValTag and compares the copies of its definition:
folder (of_cfold.c), interpreter (fint.c), the C mapping in both of its
realisations (genc.c table + foam_c.h macro/function, statement-macro form),
and a reference table -- as normalised expression trees.  See DESIGN.md C04.
"""
import json
import os

from . import common, ccoeval, bvals, trees, bval_spec
from .common import AnalysisBroken
from .trees import simp, show, truth, args_in, callees_in, has_opaque, same_shape_diff, INT_WIDTH

EXPLANATION = (
    "For every FoamBValTag: B1 the info table and the C table are exhaustive and in tag order, every builtin has an "
    "interpreter case unless frozen as not interpretable; B2 each evaluator reads operand k through the union member of "
    "argTypes[k], builds the result with the constructor/member of retType, evaluates exactly argCount operands in order; "
    "B3 the value tree of each copy mentions every operand; B4 the normalised operator trees of the folder, the interpreter, "
    "the C expression form, the C statement-macro form (foam_c.h bodies obtained by letting clang expand a generated probe "
    "unit, runtime wrappers with a single return inlined) and the reference table are equal under a fixed list of rewrites "
    "that are identities of C on the operand class. Two copies that differ inside the known vocabulary are a violation; a "
    "copy using a node kind or callee the normaliser was never taught is 'analysis broken', never agreement. "
    "Not decided: bit-level results of float library calls and of bigint.c primitives.")

FROZEN = os.path.join(os.path.dirname(__file__), "frozen")
INT_WIDTH.setdefault("bool", 1)

GENC_FUNCS = ["gc0Builtin", "gc0FCall", "gc0Cop", "gc0SIntMod"]
RUNTIME_UNITS = ["foam_c.c", "foam_i.c", "foam_cfp.c"]

# calls that only change representation, not value
COLLECT = None   # set only by tools/freeze_c04.py (developer bootstrap), never by a check
ADAPTERS = {"cfoldArrToString": 0, "bintSmall": 0}      # bintSmall(x): the value of an immediate x (B9 proves the immediacy)


def load_frozen(name):
    with open(os.path.join(FROZEN, name)) as f:
        return json.load(f)


# --------------------------------------------------------------------------
# canonical form
# --------------------------------------------------------------------------

def arg_classes(row):
    return [bvals.FOAM_TC.get(t, "ptr") for t in row["argTypes"]]


def retype(t, classes):
    """Casts applied directly to an operand whose FOAM class already fits."""
    if not isinstance(t, tuple):
        return t
    if t[0] == "cast" and t[2][0] == "arg":
        k = t[2][1]
        cls = classes[k] if k < len(classes) else None
        dst = t[1]
        if cls in INT_WIDTH and dst in INT_WIDTH and INT_WIDTH[dst] >= INT_WIDTH[cls]:
            return t[2]
        if cls == dst:
            return t[2]
        if cls == "f32" and dst == "f64":
            return t[2]
        if cls == "ptr" and dst == "ptr":
            return t[2]
    if t[0] in ("arg", "int", "flt", "str", "sym", "opaque"):
        return t
    return tuple(retype(x, classes) if isinstance(x, tuple) else x for x in t)


BINT_CMP = {
    # total-order identities on big integers (consistency of the bint comparison family is C11's business)
    "bintNE": lambda a, b: ("bin", "==", ("call", "bintEQ", a, b), ("int", 0)),
    "bintGT": lambda a, b: ("call", "bintLT", b, a),
    "bintLE": lambda a, b: ("bin", "==", ("call", "bintLT", b, a), ("int", 0)),
    "bintGE": lambda a, b: ("bin", "==", ("call", "bintLT", a, b), ("int", 0)),
}


def adapt(t, used):
    if not isinstance(t, tuple) or t[0] in ("arg", "int", "flt", "str", "sym", "opaque"):
        return t
    # parity of an immediate big integer written with C's %: (bintSmall(x) % 2) == 0 is "even", != 0 is "odd";
    # `== 1` is NOT "odd" (the remainder of a negative odd value is -1) and is left as it is, to be reported as a difference
    if t[0] == "bin" and t[1] in ("==", "!=") and len(t) == 4 and t[3] == ("int", 0) and isinstance(t[2], tuple) and \
            t[2][:2] == ("bin", "%") and t[2][3] == ("int", 2) and isinstance(t[2][2], tuple) and t[2][2][:2] == ("call", "bintSmall"):
        used.add("parity of an immediate: (bintSmall(x) % 2) ==/!= 0 -> bit 0 of x")
        return ("bin", t[1], ("call", "bintBit", adapt(t[2][2][2], used), ("int", 0)), ("int", 0))
    t = tuple(adapt(x, used) if isinstance(x, tuple) else x for x in t)
    if t[0] == "call":
        if t[1] in ADAPTERS and len(t) > 2:
            used.add("representation adapter %s(x) -> x" % t[1])
            return t[2 + ADAPTERS[t[1]]]
        if t[1] in BINT_CMP and len(t) == 4:
            used.add("bint total-order identity for %s" % t[1])
            return adapt(BINT_CMP[t[1]](t[2], t[3]), used)
        # parity of a big integer: x mod 2 = 0  <=>  bit 0 clear (exactness of bintMod/bintBit is C11's business)
        if t[1] == "bintEQ" and len(t) == 4:
            for m, z in ((t[2], t[3]), (t[3], t[2])):
                if (m[0] == "call" and m[1] in ("fiBIntMod", "bintMod") and len(m) == 4 and z in (("sym", "bint0"),)
                        and m[3] in (("call", "bintNew", ("int", 2)), ("call", "fiBIntNew", ("int", 2)))):
                    used.add("bint parity: (x mod 2 = 0) -> !bit(x,0)")
                    return ("bin", "==", ("call", "bintBit", m[2], ("int", 0)), ("int", 0))
    return t


def floatify(t, classes):
    """An integer literal combined with a float operand denotes the float."""
    def isflt(x):
        if x[0] == "arg":
            return x[1] < len(classes) and classes[x[1]] in ("f32", "f64")
        if x[0] == "flt":
            return True
        if x[0] == "bin" and x[1] in ("+", "-", "*", "/"):
            return isflt(x[2]) or isflt(x[3])
        if x[0] == "un" and x[1] == "-":
            return isflt(x[2])
        if x[0] == "cast":
            return x[1] in ("f32", "f64")
        return False

    if not isinstance(t, tuple) or t[0] in ("arg", "int", "flt", "str", "sym", "opaque"):
        return t
    t = tuple(floatify(x, classes) if isinstance(x, tuple) else x for x in t)
    if t[0] == "bin":
        a, b = t[2], t[3]
        if isflt(a) and b[0] == "int":
            b = ("flt", float(b[1]))
        if isflt(b) and a[0] == "int":
            a = ("flt", float(a[1]))
        return ("bin", t[1], a, b)
    return t


def outs(t, argc):
    if not isinstance(t, tuple) or t[0] in ("int", "flt", "str", "opaque"):
        return t
    if t[0] == "addr" and t[1][0] == "arg" and t[1][1] >= argc:
        return ("out", t[1][1] - argc)
    d = direct_out(t)
    if d is not None:
        return ("out", d[0])
    if t[0] == "sym" and len(t[1]) >= 2 and t[1][0] == "r" and t[1][1:].isdigit():
        return ("out", int(t[1][1:]))
    if t[0] in ("arg", "sym"):
        return t
    return tuple(outs(x, argc) if isinstance(x, tuple) else x for x in t)


def direct_out(t):
    """&retDataObj->ptr[i].fiX  ->  (i, 'fiX')"""
    if (isinstance(t, tuple) and t[0] == "addr" and t[1][0] == "mem" and t[1][2][0] == "idx"
            and t[1][2][1] == ("mem", "ptr", ("sym", "retDataObj")) and t[1][2][2][0] == "int"):
        return (t[1][2][2][1], t[1][1])
    return None


BOOL01_CALLS = ("bint", "stoIsPointer")       # callees that return the result of a comparison / a literal 0 or 1


def is_canonical_bool(t):
    """the expression can only have the values 0 and 1 (FOAM's Bool), so that BoolEQ / BoolNE on it compare truth values"""
    h = t[0]
    if h == "int":
        return t[1] in (0, 1)
    if h == "bin":
        return t[1] in ("==", "!=", "<", "<=", ">", ">=", "&&", "||") or (
            t[1] in ("&", "|", "^") and is_canonical_bool(t[2]) and is_canonical_bool(t[3]))
    if h == "un":
        return t[1] == "!"
    if h == "cond":
        return is_canonical_bool(t[2]) and is_canonical_bool(t[3])
    if h == "cast":
        return is_canonical_bool(t[-1])
    if h == "arg":
        return True            # a Bool operand is canonical by induction
    if h == "call":
        return t[1].startswith(BOOL01_CALLS)
    return False


def pre_truth(t, row, used):
    """canon() up to, but not including, the replacement of the result by its truth value"""
    t = outs(t, row["argCount"])
    classes = arg_classes(row)
    boolargs = bool(row["argTypes"]) and all(a == "FOAM_Bool" for a in row["argTypes"])
    t = simp(t, set(), boolargs)
    t = adapt(t, set())
    t = retype(t, classes)
    return trees.strip_result_casts(t, "i64")


def canon(t, row, used):
    t = outs(t, row["argCount"])
    classes = arg_classes(row)
    boolargs = bool(row["argTypes"]) and all(a == "FOAM_Bool" for a in row["argTypes"])
    t = simp(t, used, boolargs)
    t = adapt(t, used)
    t = retype(t, classes)
    rc = bvals.FOAM_TC.get(row["retType"], "ptr")
    t = trees.strip_result_casts(t, "i64" if rc == "bool" else rc)
    t = retype(t, classes)
    if rc in ("f32", "f64") and t[0] == "int":
        t = ("flt", float(t[1]))
    t = floatify(t, classes)
    t = simp(t, used, boolargs)
    if rc == "bool":
        t = truth(t, used)
        t = simp(t, used, boolargs)
    return t


# --------------------------------------------------------------------------
# C side
# --------------------------------------------------------------------------

B7_UNITS = [("bigint.c", "runtime"), ("dword.c", "runtime"), ("foam_c.c", "runtime"), ("foam_i.c", "runtime"), ("fint.c", "compiler"),
            ("of_cfold.c", "compiler")]


def narrow_shifts(facts, unit_file):
    """`1 << n` evaluated in int with a non-constant count and then widened to 64 bits: the shift is done in 32 bits, so the
    value is wrong (or undefined) for counts of 31 and more although the surrounding arithmetic is 64-bit."""
    out = []
    for name, fn in facts.funcs.items():
        if "body" not in fn or not fn.get("file", "").endswith(unit_file):
            continue
        par = None
        for x in common.walk(fn["body"]):
            if x["k"] == "BinaryOperator" and x["op"] == "<<" and x.get("tc") == "i32":
                l = common.strip(x["c"][0])
                if l is None or l["k"] != "IntegerLiteral" or common.const_value(x["c"][1]) is not None:
                    continue
                if par is None:
                    par = common.parents(fn["body"])
                p = par.get(x["id"])
                wide = None
                while p is not None and p["k"] in ("ParenExpr", "BinaryOperator", "UnaryOperator", "ImplicitCastExpr", "CStyleCastExpr"):
                    if p.get("tc") in ("i64", "u64"):
                        wide = p["tc"]
                        break
                    p = par.get(p["id"])
                if wide:
                    out.append((name, x["l"], common.render(x)[:40]))
    return out


CARRY_STEPS = ("xxPlusStep", "xxTimesStep")


def carry_steps(rep, rule="B8"):
    """Word addition with carry (the steps the big-integer and double-word builtins are built from): the carry out of
    r = x + y (mod B) is r < x (equivalently r < y) and is only valid for a two-term sum; each sum that ends up in the result word
    is followed by its carry test before the next sum."""
    f = common.extract("dword.c", "runtime", trees=list(CARRY_STEPS))
    n = 0
    for name in CARRY_STEPS:
        fn = f.func(name)
        pending, word = None, None
        where = lambda st: "dword.c:%d (%s)" % (st["l"], name)
        bad = False
        for st in fn["body"]["c"]:
            if st["k"] not in ("BinaryOperator", "CompoundAssignOperator"):
                continue
            lhs, rhs = common.strip(st["c"][0]), common.strip(st["c"][1])
            if st["k"] == "BinaryOperator" and st["op"] == "=" and st["c"][1].get("mac") == "MODB" and lhs["k"] == "DeclRefExpr":
                terms = []

                def addends(e):
                    e = common.strip(e)
                    if e is not None and e["k"] == "BinaryOperator" and e["op"] == "+":
                        addends(e["c"][0])
                        addends(e["c"][1])
                    else:
                        terms.append(common.render(e))
                addends(rhs)
                n += 1
                key = "carry:%s:sum@%d" % (name, n)
                if pending is not None and lhs["n"] == word:
                    rep.violation(rule, key, where(st), "the sum `%s` replaces %s before the carry of the previous sum (%s) was taken: "
                                  "a carry is lost" % (common.render(st)[:50], word, " + ".join(pending)))
                    bad = True
                if len(terms) != 2:
                    rep.violation(rule, key, where(st), "`%s` adds %d terms modulo the word base in one step: the following test "
                                  "`r < x` detects the carry of a two-term sum only (x + (B-1) + 1 wraps to x and reports no carry), "
                                  "so the multi-word result is wrong for operands with an all-ones word" % (common.render(st)[:50], len(terms)))
                    bad = True
                pending, word = terms, lhs["n"]
                continue
            cmp_ = rhs if rhs is not None and rhs["k"] == "BinaryOperator" and rhs["op"] in ("<", ">") else None
            if cmp_ is not None:
                a, b = common.render(common.strip(cmp_["c"][0])), common.render(common.strip(cmp_["c"][1]))
                if cmp_["op"] == ">":
                    a, b = b, a                       # `x > r` is `r < x`
                key = "carry:%s:test@%d" % (name, st["l"])
                if pending is None or a != word or b not in pending or b == word and pending.count(word) < 1:
                    rep.violation(rule, "carry:%s:test" % name, where(st), "the carry test `%s` does not compare the sum with one of the "
                                  "two terms just added (%s)" % (common.render(cmp_), pending))
                    bad = True
                pending = None
                continue
            if st["op"] == "=" and lhs["k"] == "UnaryOperator" and common.render(lhs) == "*pr" and pending is not None:
                rep.violation(rule, "carry:%s:stored" % name, where(st), "the result word is stored while the carry of its last sum (%s) "
                              "has not been taken" % " + ".join(pending))
                bad = True
        if not bad:
            rep.ok(rule, "carry:%s" % name)
    rep.floor("word sums in the carry steps", n, 3)


FORMS = None     # filled when another rule (C03-T4) asks for the per-route trees


def generator_terms(f_genc, info, crows, start):
    """CCode term built by gc0Builtin for every row (rules.ccoeval), in the
    expression context (gcvisStmtFCall non-zero: the statement-macro route is
    compared separately as CS)."""
    ev = ccoeval.Evaluator(f_genc, {r["tagv"]: r for r in crows}, {r["tagv"]: r for r in info}, start)
    terms = {}
    for r in crows:
        try:
            terms[r["tag"]] = ev.builtin_form(r["tagv"], {"gcvisStmtFCall": 1})
        except ccoeval.Unknown as e:
            terms[r["tag"]] = ("opaque", "generator: %s" % e)
    return terms, ev.followed


def canonical_fcall(term, argc):
    """name(arg0, ..., argN-1): the shape the verif_expr_ probes assume."""
    if term[0] != "cco" or term[1] != "CCO_FCall" or len(term[2]) != 2:
        return False
    f, a = term[2]
    if f[0] != "rowstr":
        return False
    if a[0] != "cco" or a[1] != "CCO_Many":
        return False
    return [x[:2] if x is not None else None for x in a[2]] in ([("cast", i) for i in range(argc)], [("arg", i) for i in range(argc)])


def c_expression_tree(row, inf, ops, probe_trees, term):
    """Tree of the expression form generated for a table row: the CCode term
    computed from gc0Builtin's source, with names and constants resolved by
    clang through the probe unit."""
    s = row["str"]
    argc = inf["argCount"]
    short = row["tag"][len("FOAM_BVal_"):]
    if term[0] == "opaque":
        return term
    if term[0] == "rowstr":
        return probe_trees.get("verif_const_" + short, ("opaque", "constant %r not parsed" % (s,)))
    if term[0] == "cco" and term[1] == "CCO_FCall":
        if canonical_fcall(term, argc):
            return probe_trees.get("verif_expr_" + short, ("opaque", "no probe for %s" % s))
        return probe_trees.get("verif_spec_" + short, ("opaque", "no probe for the special form of %s" % short))
    if term[0] == "cco" and term[1] == "CCO_Cast":
        ty = term[2][0] if len(term[2]) == 2 else None
        if ty is not None and ty[0] == "cco" and ty[1] in ("CCO_TypedefId", "CCO_Type") and len(ty[2]) == 1:
            ty = ty[2][0]        # ccoTypeIdOf(s) == ccoTypedefId(ccoIdOf(s))
        if ty is not None and ty[0] == "rowstr" and term[2][1] == ("arg", 0):
            return probe_trees.get("verif_cast_" + short, ("opaque", "cast not parsed"))
        return ("opaque", "cast form %r" % (term,))

    def conv(t):
        if t[0] == "rowstr":
            return probe_trees.get("verif_const_" + short, ("opaque", "constant %r not parsed" % (s,)))
        if t[0] == "arg":
            return ("arg", t[1])
        if t[0] == "int":
            return ("int", t[1])
        if t[0] == "cco":
            op = ops.get(t[1])
            if op is None:
                return ("opaque", "unknown C operator kind %s" % t[1])
            kind, sym = op
            a = [conv(x) if x is not None else ("opaque", "unfilled operand slot") for x in t[2]]
            if kind == "CCOK_Infix" and len(a) == 2:
                return ("bin", sym, a[0], a[1])
            if kind == "CCOK_Prefix" and len(a) == 1:
                return ("un", sym, a[0])
            return ("opaque", "operator %s applied to %d operands" % (t[1], len(a)))
        return ("opaque", "term %r" % (t,))
    return conv(term)


def write_c_probe(path, info, crows, terms):
    """Probe unit: clang parses every constant / cast / function / macro named
    by ccBValInfoTable applied to typed marker operands."""
    plan = bvals.write_probe(path, info, crows, None)
    byname = {r["tag"]: r for r in info}
    extra = []
    for row in crows:
        inf = byname.get(row["tag"])
        if inf is None:
            continue
        short = row["tag"][len("FOAM_BVal_"):]
        rett = bvals.FI_TYPE.get(inf["retType"], "FiWord")
        s = row["str"]
        if isinstance(s, tuple):
            s = None
        if row["cfun"] in ("CCO_Id", "CCO_FloatVal", "CCO_IntVal", "CCO_CharVal") or (
                row["special"] == 1 and row["cfun"] not in ("CCO_FCall", "CCO_Cast")):
            if s is not None:
                ct = "FiSFlo" if inf["retType"] == "FOAM_SFlo" else rett
                at = bvals.FI_TYPE.get(inf["argTypes"][0]) if inf["argTypes"] else None
                # a comparison constant has the type of the operand it is compared with
                ty = at if (row["special"] == 1 and at and row["cfun"] not in (
                    "CCO_Id", "CCO_FloatVal", "CCO_IntVal", "CCO_CharVal")) else ct
                extra.append("%s verif_const_%s(void) { return %s; }" % (ty, short, s))
        term = terms.get(row["tag"], ("opaque", ""))
        if term[0] == "cco" and term[1] == "CCO_FCall" and not canonical_fcall(term, inf["argCount"]):
            # a call form other than name(arg0, ..., argN-1): C text of the term built by the generator
            argts = [bvals.FI_TYPE.get(t) for t in inf["argTypes"]]
            if all(argts):
                try:
                    text = ccoeval.to_c_text(term, ["a%d" % i for i in range(len(argts))])
                    extra.append("%s verif_spec_%s(%s) { return (%s) %s; }" % (
                        rett, short, ", ".join("%s a%d" % (t, i) for i, t in enumerate(argts)) or "void", rett, text))
                except ccoeval.Unknown:
                    pass
        if row["cfun"] == "CCO_Cast" and inf["argTypes"]:
            at = bvals.FI_TYPE.get(inf["argTypes"][0])
            ctype = row["str"][1] if isinstance(row["str"], tuple) else row["str"]
            extra.append("/*cast*/ %s verif_cast_%s(%s a0) { return (%s) VERIF_CAST_%s a0; }" % (rett, short, at, rett, short))
            extra.append("")
            plan.setdefault(row["tag"], {})["cast"] = ctype
    with open(path, "a") as f:
        f.write("\n".join(extra) + "\n")
    return plan


# --------------------------------------------------------------------------
# the check
# --------------------------------------------------------------------------

def probe_function_trees(facts, inline):
    out = {}
    for name, fn in facts.funcs.items():
        if not name.startswith("verif_") or "body" not in fn:
            continue
        params = {p["did"]: ("arg", i) for i, p in enumerate(fn["params"]) if p["n"].startswith("a")}
        outs = {p["did"]: ("sym", p["n"]) for p in fn["params"] if not p["n"].startswith("a")}
        params.update(outs)
        body = [s for s in fn["body"]["c"] if s["k"] != "NullStmt"]
        unknown = set()
        env = trees.Env(locals_=params, inline=inline, depth=2, unknown=unknown)
        if len(body) != 1:
            out[name] = ("opaque", "probe body has %d statements" % len(body))
            continue
        st = body[0]
        if st["k"] == "ReturnStmt":
            out[name] = trees.norm(st["c"][0], env)
        else:
            out[name] = trees.norm(st, env)
        if unknown:
            out[name] = ("opaque", "unknown node kinds %s" % sorted(unknown))
    return out


def stmt_macro_value(t):
    """A statement macro must have the shape  (*r_) = (T) TREE ; return TREE."""
    if t[0] == "bin" and t[1] == "=" and t[2] == ("deref", ("sym", "r_")):
        return t[3]
    if t[0] == "bin" and t[1] == "=" and t[2][0] == "deref":
        return t[3]
    return None


def peep_special_cases(rep):
    """B10: peepBCall rewrites a handful of builtins by hand (case labels of its switch) before the table-driven peephole runs.
    Each such rewrite is one more evaluator of the builtin; the confirmed ones are frozen with the reason they agree with the
    other evaluators.  A label that is not in the frozen set is an unconfirmed rewrite (for instance `a quo 2^k` as an arithmetic
    shift, which rounds the other way for negative a): the check refuses to pass until its equivalence has been established by
    hand.  A frozen label that disappears is only noted."""
    frozen = json.load(open(os.path.join(os.path.dirname(__file__), "frozen", "c04_peep_special.json")))
    f = common.extract("of_peep.c", trees=["peepBCall"])
    fn = f.func("peepBCall")
    labels = set()
    for sw in common.walk(fn["body"]):
        if sw["k"] != "SwitchStmt":
            continue
        for g in common.switch_cases(sw):
            for l in g["labels"]:
                if l[0] and l[0].startswith("FOAM_BVal_"):
                    labels.add(l[0])
    if not labels:
        raise common.AnalysisBroken("peepBCall: no `case FOAM_BVal_...` labels found")
    new = sorted(labels - set(frozen))
    for l in sorted(labels & set(frozen)):
        rep.ok("B10", "peephole-special-case:%s" % l[len("FOAM_BVal_"):], nontrivial=False)
    for l in sorted(set(frozen) - labels):
        rep.note("B10: the hand-written peephole case for %s is gone" % l)
    if new:
        raise common.AnalysisBroken("peepBCall has hand-written rewrites for %s that have not been confirmed against the other "
                                    "evaluators of these builtins (folder, interpreter, C, Java): establish the equivalence for "
                                    "every operand value -- sign, zero and boundary cases included -- and add them to "
                                    "rules/frozen/c04_peep_special.json" % ", ".join(x[len("FOAM_BVal_"):] for x in new))


def b13(rep):
    """A big-integer constant travels as a sign byte and 16-bit places; the reader that rebuilds it is bintFrPlacevS, the dual of
    the writer's bintToPlacevS, for every size.  A short cut `small ones through a machine word` must get the width right:
    bintNew takes a *signed* long, so a magnitude assembled in 64 bits and cast to long is wrong for [2^63, 2^64) -- the folded
    constant 9223372036854775808 is -9223372036854775808 under the interpreter only.  In the FOAM_BInt case of the interpreter's
    evaluator the constant is produced by bintFrPlacevS and by nothing else."""
    f = common.extract("fint.c", trees=["fintEval_"])
    fn = f.func("fintEval_")
    groups = None
    for sw in common.walk(fn["body"]):
        if sw["k"] != "SwitchStmt":
            continue
        try:
            gs = common.switch_cases(sw)
        except AnalysisBroken:
            continue
        if any(lab[0] == "FOAM_BInt" for g in gs for lab in g["labels"]):
            groups = [g for g in gs if any(lab[0] == "FOAM_BInt" for lab in g["labels"])]
            break
    if not groups:
        raise AnalysisBroken("fintEval_: no case FOAM_BInt")
    g = groups[0]
    makers = []
    for st in g["stmts"]:
        for x in common.walk(st):
            if x["k"] == "BinaryOperator" and x["op"] == "=":
                l = common.strip(x["c"][0])
                if l is not None and l["k"] == "MemberExpr" and l["n"] == "fiBInt":
                    cs = [y.get("callee") for y in common.walk(x["c"][1]) if y["k"] == "CallExpr"]
                    makers.append((x, cs))
    if not makers:
        raise AnalysisBroken("fintEval_: the FOAM_BInt case stores no big integer")
    for x, cs in makers:
        key = "bint-constant-rebuilt-from-places@%d" % x["l"]
        if "bintFrPlacevS" in cs and not any(c in ("bintNew", "bintFrString") for c in cs):
            rep.ok("B13", key)
        else:
            rep.violation("B13", "bint-constant-rebuilt-from-places", "fint.c:%d (fintEval_, case FOAM_BInt)" % x["l"],
                          "the interpreter builds a big-integer constant with %s instead of bintFrPlacevS: bintNew takes a signed "
                          "machine word, so a constant whose magnitude needs the 64th bit (2^63 .. 2^64-1, e.g. the folded "
                          "9223372036854775807 + 1) gets the wrong sign and value under the interpreter, while the executable and "
                          "the unfolded program have the right one" % (", ".join(c for c in cs if c) or "no codec call"))


def run(tier, only=None, library=False):
    rep = common.Report("C04", tier, EXPLANATION)
    f_foam = common.extract("foam.c")
    f_cfold = common.extract("of_cfold.c", trees=["cfoldBCall"])
    f_fint = common.extract("fint.c", trees=["fintEvalBCall"])
    f_genc = common.extract("genc.c", trees=GENC_FUNCS)
    f_ccode = common.extract("ccode.c")
    rt = [common.extract(u, "runtime", all_trees=True) for u in RUNTIME_UNITS]
    inline = bvals.inline_table(rt)
    rt_funcs = set()
    for f in rt:
        rt_funcs.update(n for n, fn in f.funcs.items() if fn.get("def"))
    rep.analysed_count("translation units", 5 + len(rt))

    info = bvals.info_table(f_foam)
    bv = f_foam.enum_values("foamBValTag") if "foamBValTag" in f_foam.enums else None
    if bv is None:
        # the enum may be anonymous behind a typedef
        for e in f_foam.raw["enums"]:
            names = [n for n, _ in e["e"]]
            if "FOAM_BVal_BoolFalse" in names:
                bv = dict(e["e"])
        if bv is None:
            raise AnalysisBroken("enumeration of FOAM_BVal_ tags not found")
    start, limit = bv.get("FOAM_BVAL_START"), bv.get("FOAM_BVAL_LIMIT")
    if start is None or limit is None:
        raise AnalysisBroken("FOAM_BVAL_START/LIMIT not found")
    alltags = sorted((v, n) for n, v in bv.items() if n.startswith("FOAM_BVal_"))
    rep.floor("builtin tags", len(alltags), 250)

    # ---- B1: tables exhaustive and ordered ------------------------------
    crows = bvals.ctable_rows(f_genc)
    for tname, rows, where in (("foamBValInfoTable", info, "foam.c"), ("ccBValInfoTable", crows, "genc.c")):
        if len(rows) != limit - start:
            rep.violation("B1", "%s:length" % tname, where,
                          "%s has %d rows, there are %d builtin tags" % (tname, len(rows), limit - start))
        else:
            rep.ok("B1", "%s:length" % tname)
        for i, r in enumerate(rows):
            if r["tagv"] != start + i:
                rep.violation("B1", "%s:%s" % (tname, r["tag"]), "%s:%d" % (where, r["line"]),
                              "row %d of %s carries tag %s (=%s), expected the tag with value %d: the table is indexed by tag"
                              % (i, tname, r["tag"], r["tagv"], start + i))
            else:
                rep.ok("B1", "%s:%s" % (tname, r["tag"]), nontrivial=False)
    by = {r["tag"]: r for r in info}
    cby = {r["tag"]: r for r in crows}

    fold, _ = bvals.folder_cases(f_cfold, inline)
    interp, _, interp_default = bvals.interp_cases(f_fint, inline)
    rep.floor("folder cases", len(fold), 150)
    rep.floor("interpreter cases", len(interp), 240)

    not_interp = load_frozen("c04_not_interpreted.json")
    for v, tag in alltags:
        if tag in interp:
            rep.ok("B1", "interp-case:" + tag, nontrivial=False)
        elif tag in not_interp:
            rep.note("interpreter has no case for %s: %s" % (tag, not_interp[tag]))
        else:
            rep.violation("B1", "interp-case:" + tag, "fint.c:fintEvalBCall",
                          "no case for %s in fintEvalBCall: the interpreter falls to default: bug() where the C route has "
                          "a mapping" % tag)

    # ---- C operator kinds from ccode.c ----------------------------------
    ops = {}
    rec = f_ccode.records.get("cco_info")
    if rec is None:
        raise AnalysisBroken("struct cco_info not found")
    fields = [f[0] for f in rec["f"]]
    for r in common.table_rows(f_ccode.var("ccoInfoTable")):
        g = dict(zip(fields, r["c"]))
        tag, kind, s = common.enum_name(g["tag"]), common.enum_name(g["kind"]), common.string_value(g["str"])
        if s is not None and kind in ("CCOK_Infix", "CCOK_Prefix"):
            ops[tag] = (kind, s.strip())

    # ---- probe unit ------------------------------------------------------
    probe = os.path.join(common.BUILD, "c04_probe.%d.c" % os.getpid())
    terms, followed = generator_terms(f_genc, info, crows, start)
    rep.analysed_count("ccBValInfoTable rows whose generated C form was computed from gc0Builtin's source", sum(1 for t in terms.values() if t[0] != "opaque"))
    if not {"gc0FCall", "gc0Cop", "gc0SIntMod"} <= followed:
        raise AnalysisBroken("the walk of gc0Builtin no longer reaches gc0FCall/gc0Cop/gc0SIntMod (reached: %s)" % sorted(followed))
    plan = write_c_probe(probe, info, crows, terms)
    defs = []
    for row in crows:
        if row["cfun"] == "CCO_Cast":
            short = row["tag"][len("FOAM_BVal_"):]
            ct = row["str"]
            if isinstance(ct, tuple):
                raise AnalysisBroken("cast type of %s is not a string literal" % row["tag"])
            defs.append("-DVERIF_CAST_%s=(%s)" % (short, ct))
            # B12: a cast row names the run-time type of its result class (FiChar, FiSInt, ...), whose width and signedness
            # foam_c.h fixes for every evaluator; a bare C type (`char` is signed on x86, FiChar is unsigned char) converts
            # differently from the interpreter, which keeps the value in a FiChar member
            if str(ct).startswith("Fi"):
                rep.ok("B12", "cast-to-runtime-type:%s" % short, sample={"type": ct})
            else:
                rep.violation("B12", "cast-to-runtime-type:%s" % short, "genc.c (ccBValInfoTable, %s)" % row["tag"],
                              "the generated C converts with `(%s)`, a bare C type, where the interpreter stores the result in the "
                              "run-time type of its class: for CharNum `(char) 233` is -23 on this platform while FiChar is "
                              "unsigned, so `char(233) pretend MachineInteger` prints -23 from an executable and 233 under the "
                              "interpreter" % ct)
    try:
        f_probe = common.extract(probe, "compiler", all_trees=True, extra_flags=defs)
    finally:
        if os.path.exists(probe):
            os.unlink(probe)
    ptrees = probe_function_trees(f_probe, inline)
    rep.analysed_count("probe functions (foam_c.h forms)", len(ptrees))

    known_callees = set(load_frozen("c04_callees.json"))
    uncompared_ok = load_frozen("c04_uncompared.json")
    no_value = load_frozen("c04_no_value_semantics.json")
    ignorable = load_frozen("c04_ignored_operands.json")

    # ---- per builtin -------------------------------------------------------
    compared = 0
    for v, tag in alltags:
        row = by.get(tag)
        if row is None:
            continue
        short = tag[len("FOAM_BVal_"):]
        argc = row["argCount"]
        where = {"F": "of_cfold.c:cfoldBCall", "I": "fint.c:fintEvalBCall", "CE": "genc.c:ccBValInfoTable+foam_c.h",
                 "CS": "foam_c.h statement macro", "R": "reference"}
        forms, used = {}, set()
        raw = {}
        # folder
        fc = fold.get(tag)
        if fc is not None:
            where["F"] = "of_cfold.c:%d" % fc.line
            if fc.unknown:
                raise AnalysisBroken("cfoldBCall case %s uses a construct the extractor does not know: %s %s" % (
                    tag, sorted(fc.unknown), fc.notes))
            if fc.value is not None:
                raw["F"] = fc.value
            # B2 folder typing
            if fc.value is not None:
                if fc.ctor != row["retType"] and not (fc.ctor == "FOAM_Nil" and row["retType"] == "FOAM_Ptr"):
                    # (Nil) is FOAM's literal for the null Ptr
                    rep.violation("B2", "folder-result:" + short, where["F"],
                                  "folder builds a %s node, the builtin returns %s" % (fc.ctor, row["retType"]))
                else:
                    rep.ok("B2", "folder-result:" + short)
                for k in range(argc):
                    want = bvals.FOLDER_MEMBER.get(row["argTypes"][k])
                    got = set(m for m, _ in fc.access.get(k, set()) if m)
                    if got and want and got != {want}:
                        rep.violation("B2", "folder-operand:%s:%d" % (short, k), where["F"],
                                      "operand %d of %s is %s but is read through %s" % (k, short, row["argTypes"][k], sorted(got)))
                    elif got:
                        rep.ok("B2", "folder-operand:%s:%d" % (short, k))
                    a = fc.asserted.get(k)
                    if a is not None and a != row["argTypes"][k]:
                        rep.violation("B2", "folder-assert:%s:%d" % (short, k), where["F"],
                                      "folder asserts operand %d is %s, table says %s" % (k, a, row["argTypes"][k]))
        # interpreter
        ic = interp.get(tag)
        if ic is not None:
            where["I"] = "fint.c:%d" % ic.line
            if ic.unknown and tag != "FOAM_BVal_Halt":
                raise AnalysisBroken("fintEvalBCall case %s uses a construct the extractor does not know: %s" % (
                    tag, sorted(ic.unknown)))
            if ic.raw is not None and isinstance(ic.raw, tuple) and (ic.value is None or ic.value == ("int", 0)):
                raw["I"] = ic.raw      # the runtime call is the meaning; the stored value is a placeholder
            elif ic.value is not None:
                raw["I"] = ic.value
            if row["retCount"] > 1:
                for i in range(row["retCount"]):
                    got = (ic.multi or {}).get(i)
                    wantm = bvals.INTERP_MEMBER.get(row["retTypes"][i])
                    if got is None and isinstance(ic.raw, tuple) and len(ic.raw) > 2 + argc + i:
                        d = direct_out(ic.raw[2 + argc + i])
                        if d is not None and d[0] == i:
                            got = (d[1], ("outval", argc + i))
                    if got is None or got[1] != ("outval", argc + i) or got[0] != wantm:
                        rep.violation("B2", "interp-multi:%s:%d" % (short, i), where["I"],
                                      "result %d of %s must be out-parameter %d stored through %s, found %s" % (
                                          i, short, i, wantm, got))
                    else:
                        rep.ok("B2", "interp-multi:%s:%d" % (short, i))
            if ic.evals != list(range(argc)):
                rep.violation("B2", "interp-evals:" + short, where["I"],
                              "interpreter evaluates operands %s, the builtin takes %d in order" % (
                                  [e + 1 for e in ic.evals], argc))
            else:
                rep.ok("B2", "interp-evals:" + short, nontrivial=argc > 0)
            want_t = row["retType"] if row["retCount"] == 1 else "FOAM_NOp"
            if tag != "FOAM_BVal_Halt":
                if ic.mytype != want_t:
                    rep.violation("B2", "interp-type:" + short, where["I"],
                                  "interpreter reports result type %s, the builtin returns %s" % (ic.mytype, want_t))
                else:
                    rep.ok("B2", "interp-type:" + short)
            if ic.value is not None and row["retCount"] == 1:
                wm = bvals.INTERP_MEMBER.get(row["retType"])
                if wm and ic.result_member != wm and not (wm == "fiPtr" and ic.result_member in ("fiArr", "fiRec", "fiPtr", "fiBInt", "fiWord", "fiClos")):
                    rep.violation("B2", "interp-result:" + short, where["I"],
                                  "result stored through %s, the builtin returns %s" % (ic.result_member, row["retType"]))
                else:
                    rep.ok("B2", "interp-result:" + short)
            for k in range(argc):
                want = bvals.INTERP_MEMBER.get(row["argTypes"][k])
                got = ic.access.get(k, set())
                if not got or want is None:
                    continue
                okset = {want}
                if row["argTypes"][k] == "FOAM_Bool" and k in ic.forced_bool:
                    okset = {"fiWord", "fiBool"}
                if want == "fiPtr":
                    okset = {"fiPtr", "fiArr", "fiRec", "fiWord", "fiBInt", "fiClos"}
                if not got <= okset:
                    rep.violation("B2", "interp-operand:%s:%d" % (short, k), where["I"],
                                  "operand %d of %s is %s but is read through %s" % (k, short, row["argTypes"][k], sorted(got)))
                else:
                    rep.ok("B2", "interp-operand:%s:%d" % (short, k))
        # C forms
        crow = cby.get(tag)
        if crow is not None:
            where["CE"] = "genc.c:%d (ccBValInfoTable %s)" % (crow["line"], short)
            ce = c_expression_tree(crow, row, ops, ptrees, terms.get(tag, ("opaque", "no term")))
            raw["CE"] = ce
            # T2-like well-formedness: named runtime entry exists
            if crow["cfun"] == "CCO_FCall" and isinstance(crow["str"], str):
                rep.analysed_count("C table rows naming a runtime entry", 1)
            if crow["macro"]:
                st = ptrees.get("verif_stmt_" + short)
                if st is not None:
                    val = stmt_macro_value(st)
                    if val is None:
                        raw["CS"] = ("opaque", "statement macro %s is not of the form (r) = (t) EXPR: %s" % (crow["macro"], show(st)))
                    else:
                        raw["CS"] = val
                    where["CS"] = "foam_c.h:%s" % crow["macro"]
        ref = bval_spec.reference(short)
        if ref is not None:
            raw["R"] = ref

        # B6: a Bool result is one of the two Bool values, not merely zero / non-zero
        if row["retType"] == "FOAM_Bool" and row.get("retCount", 1) == 1 and short not in no_value:
            for src, t in sorted(raw.items()):
                if src == "R" or has_opaque(t):
                    continue
                pt_ = pre_truth(t, row, used)
                if has_opaque(pt_):
                    continue
                if is_canonical_bool(pt_):
                    rep.ok("B6", "%s:%s" % (short, src), nontrivial=False)
                else:
                    rep.violation("B6", "%s:%s" % (short, src), where[src],
                                  "%s returns %s as a Bool: any non-zero int, not the Bool value 1. %s and the other copies agree on "
                                  "truth, but BoolEQ/BoolNE and conversions compare the raw word, so the result of the builtin differs "
                                  "between the evaluators" % (
                                      {"F": "the folder", "I": "the interpreter", "CE": "generated C", "CS": "the C statement macro"}[src],
                                      show(pt_), short))

        # B11: the folder builds a FOAM literal node, whose data word is an AInt: unlike the interpreter's `(FiChar) x` or the C
        # type of the generated expression, nothing narrows the value to the result class.  Where the result class is narrower
        # than the value folded into it, the folder must narrow explicitly.
        rc_ = bvals.FOAM_TC.get(row["retType"], "ptr")
        if "F" in raw and rc_ in ("char", "u8", "i16") and not has_opaque(raw["F"]) and short not in no_value:
            width = {"char": 8, "u8": 8, "i16": 16}[rc_]
            acl = arg_classes(row)

            def vbits(t):
                if not isinstance(t, tuple):
                    return 64
                h = t[0]
                if h == "arg":
                    return {"char": 8, "u8": 8, "i16": 16, "bool": 1}.get(acl[t[1]] if t[1] < len(acl) else "i64", 64)
                if h in ("int", "chr"):
                    return max(1, abs(int(t[1])).bit_length()) if isinstance(t[1], int) and t[1] >= 0 else 64
                if h == "cast":
                    return min({"char": 8, "u8": 8, "i16": 16, "bool": 1, "Char": 8, "Byte": 8, "HInt": 16, "Bool": 1}.get(t[1], 64), vbits(t[2]))
                if h == "call" and t[1] in ("tolower", "toupper") and len(t) == 3:
                    return vbits(t[2])
                if h == "idx" and isinstance(t[1], tuple) and t[1][0] == "sym" and t[1][1] in ("__lowercase", "__uppercase"):
                    return 8                       # the repository's own character tables (ctype.h0)
                if h == "bin" and t[1] in ("==", "!=", "<", "<=", ">", ">=", "&&", "||"):
                    return 1
                if h == "bin" and t[1] == "&":
                    return min(vbits(t[2]), vbits(t[3]))
                if h == "cond":
                    return max(vbits(t[2]), vbits(t[3]))
                return 64
            b = vbits(raw["F"])
            if b <= width:
                rep.ok("B11", "folder-narrows:%s" % short, nontrivial=False)
            else:
                rep.violation("B11", "folder-narrows:%s" % short, where["F"],
                              "the folder stores %s, a value of up to %d bits, into a %s literal without narrowing it to the %d bits "
                              "of the result type (a FOAM literal's data word is a full machine integer): %s of a constant outside "
                              "the range folds to a value that the interpreter and the generated C, which convert through the C "
                              "type, never produce" % (show(raw["F"]), b, row["retType"][5:], width, short))

        # canonical forms
        for src, t in raw.items():
            forms[src] = canon(t, row, used)

        # vocabulary
        for src, t in forms.items():
            if src == "R":
                continue
            unk = callees_in(t) - known_callees
            if unk and COLLECT is not None:
                COLLECT["callees"].update(unk)
            elif unk:
                raise AnalysisBroken("%s copy of %s calls %s, which is not in the frozen vocabulary (frozen/c04_callees.json): "
                                     "cannot tell whether it agrees with its siblings" % (src, short, sorted(unk)))

        if short in no_value:
            rep.note("not compared (%s): %s" % (no_value[short], short))
            continue
        # B3 operand completeness
        incomplete = set()
        for src, t in forms.items():
            if has_opaque(t):
                continue
            missing = set(range(argc)) - args_in(t) - set(int(k) for k in ignorable.get(short, {}))
            key = "%s:%s" % (short, src)
            if missing:
                incomplete.add(src)
                rep.violation("B3", key, where[src],
                              "%s copy of %s never uses operand(s) %s: %s" % (src, short, sorted(missing), show(t)),
                              detail={"tree": show(t)})
            elif argc > 0:
                rep.ok("B3", key)

        # B4 agreement
        cmp_forms = {s: t for s, t in forms.items() if not has_opaque(t)}
        opaque_forms = {s: t for s, t in forms.items() if has_opaque(t)}
        for s, t in opaque_forms.items():
            key = "%s:%s" % (short, s)
            if key in uncompared_ok or short in uncompared_ok:
                rep.note("uncompared %s: %s" % (key, show(t)))
            elif COLLECT is not None:
                COLLECT["uncompared"][key] = show(t)
            else:
                raise AnalysisBroken("%s copy of %s could not be expressed (%s) and is not in frozen/c04_uncompared.json" % (
                    s, short, show(t)))
        if FORMS is not None:
            FORMS[short] = {"forms": dict(cmp_forms), "where": dict(where), "incomplete": set(incomplete)}
        pivot = "R" if "R" in cmp_forms else ("I" if "I" in cmp_forms else None)
        if pivot is None or len(cmp_forms) < 2:
            continue
        compared += 1
        pt = cmp_forms[pivot]
        agree = []
        for s, t in sorted(cmp_forms.items()):
            if s == pivot or s in incomplete:
                continue
            key = "%s:%s-vs-%s" % (short, s, pivot)
            if t == pt:
                rep.ok("B4", key, sample={"builtin": short, s: show(t), pivot: show(pt), "rewrites": sorted(used)[:6]}
                       if len(rep.samples) < 8 and argc > 0 else None)
                agree.append(s)
            else:
                rep.violation("B4", key, where[s],
                              "%s: %s computes %s but %s is %s" % (short, {"F": "the folder", "I": "the interpreter",
                                                                          "CE": "generated C (expression form)",
                                                                          "CS": "generated C (statement macro)"}[s],
                                                                   show(t), "the reference" if pivot == "R" else "the interpreter", show(pt)),
                              detail={"this": show(t), "pivot": show(pt), "where_pivot": where[pivot]})
    # ---- B5: the algebraic simplifier (peepBCall) treats each integer builtin by identities that hold for it ----
    from . import c02_opt_tables as c2

    class _Fwd:
        """forwards C02-Q1's ring-algebra obligations (not the float cells, which C02 owns) as B5"""
        samples = rep.samples

        def ok(self, rule, key, nontrivial=True, sample=None):
            if not key.startswith(("fastfloat:", "carefulfloat:")):
                rep.ok("B5", key, nontrivial=nontrivial, sample=None)

        def violation(self, rule, key, where, msg, detail=None):
            if not key.startswith(("fastfloat:", "carefulfloat:")):
                rep.violation("B5", key, where, msg, detail=detail)

        def note(self, msg):
            pass

        def floor(self, what, n, least):
            rep.floor(what, n, least)

    c2.q1(_Fwd(), common.extract("of_peep.c", trees=["peepMakeUnaryOp"]), info)
    # ---- B7: no int-width shift by a variable count inside 64-bit arithmetic in the evaluators of the builtins ----
    nb7 = 0
    for unit, cfg in B7_UNITS:
        fx = common.extract(unit, cfg, all_trees=True)
        nb7 += 1
        sites = narrow_shifts(fx, unit)
        for fname, line, txt in sites:
            rep.violation("B7", "narrow-shift:%s:%s" % (unit, fname), "%s:%d (%s)" % (unit, line, fname),
                          "`%s` is computed in 32-bit int and only then widened to 64 bits: for a count of 31 or more the mask or power "
                          "is wrong, so the builtin built on it departs from its mathematical definition for large operands" % txt)
        if not sites:
            rep.ok("B7", "no-narrow-shift:" + unit, nontrivial=False)
    carry_steps(rep)
    b13(rep)
    if not library:                 # an unconfirmed hand-written rewrite is C04's refusal, not its users'
        peep_special_cases(rep)
    from . import immed
    immed.report(rep, "B9", floor=8)      # conversions BInt -> machine integer outside the table: bintSmall only on immediates
    rep.floor("builtins with at least two comparable copies", compared, 150)
    rep.analysed_count("builtins", len(alltags))
    rep.assumptions += [
        "B6: for every builtin returning Bool, each copy's expression (before truth normalisation) is 0/1-valued by its shape: a "
        "comparison, logical operator, !x, 0/1 literal, conditional of such, a Bool operand, or a bigint/store predicate",
        "B8: in xxPlusStep/xxTimesStep (dword.c) every word sum has two terms and, when it reaches the result word, is followed by "
        "the carry test against one of them; the top-word sum of xxTimesStep (h + k, stored to *pko) cannot carry",
        "B9: every use of the value of bintSmall(b) in the compiler is reached only when b is an immediate big integer "
        "(bintIsSmall(b), |b| below a bound of at most 2^62, or a bit length of at most 62), rules/immed.py",
        "B7 is a width lint over bigint.c, dword.c, foam_c.c, foam_i.c, fint.c, of_cfold.c: an integer literal shifted left by a "
        "non-constant count in type int whose result flows into 64-bit arithmetic",
        "B5 = C02-Q1 restricted to the ring (integer) algebra: table cells of peepBValOpInfo are identities of a commutative ring with "
        "total order for every integer builtin routed to them; float cells are judged by C02 only",
        "FOAM Bool values are 0/1, so & and && (| and ||) coincide on them and any non-zero result denotes true",
        "ISO C isdigit/isalpha/tolower/toupper/atof are one primitive wherever they are called (-D__NO_CTYPE used while parsing)",
        "bigint.c comparison family forms a consistent total order (C11's business)",
        "the C form of a builtin is the CCode term gc0Builtin builds for its tag in expression context (branch conditions of "
        "gc0Builtin/gc0FCall/gc0Cop/gc0SIntMod depend only on the tag and its table rows; computed by rules/ccoeval.py, any "
        "construct it cannot decide makes the form opaque); gc0TryCast(type, operand) passes the operand's value",
    ]
    return rep
