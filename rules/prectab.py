"""Operator precedence tables of the two pretty-printers against the grammar
of the language they print.  The printers decide parentheses from a numeric
precedence column; the rule is that the column orders every pair of binary
operators the way the target grammar does (ISO C 6.5 / JLS 15: both have the
same relative order for the operators used here)."""

# binding strength in the target grammars (higher binds tighter)
GRAMMAR = {
    ",": 1,
    "=": 2, "*=": 2, "/=": 2, "%=": 2, "+=": 2, "-=": 2, "<<=": 2, ">>=": 2, "&=": 2, "^=": 2, "|=": 2,
    "||": 4, "&&": 5, "|": 6, "^": 7, "&": 8,
    "==": 9, "!=": 9, "<": 10, "<=": 10, ">": 10, ">=": 10,
    "<<": 11, ">>": 11, ">>>": 11, "+": 12, "-": 12, "*": 13, "/": 13, "%": 13,
}


def inconsistent_pairs(rows):
    """rows: list of (name, operator text, precedence).  Returns the pairs whose numeric order contradicts the grammar."""
    bad = []
    ops = [(n, s.strip(), p) for n, s, p in rows if s and s.strip() in GRAMMAR]
    for i, (n1, s1, p1) in enumerate(ops):
        for n2, s2, p2 in ops[i + 1:]:
            g = (GRAMMAR[s1] > GRAMMAR[s2]) - (GRAMMAR[s1] < GRAMMAR[s2])
            t = (p1 > p2) - (p1 < p2)
            if g != t:
                bad.append((n1, s1, p1, n2, s2, p2))
    return bad, len(ops)
