"""Three-valued partial evaluation of a C condition under a partial
environment (variable name -> integer).  Returns an int when the value is
determined, None when it depends on something unknown.

Used for *guard coverage* rules: "for every value v of the state variable for
which the guarded action is needed, the guard (with the variable fixed to v)
must not be false".
"""
from .common import strip, const_value


def peval(n, env, lookup=None):
    """env: {var name: int}; lookup(node) may resolve table look-ups."""
    if n is None:
        return None
    k = n["k"]
    if k in ("ParenExpr", "ConstantExpr"):
        return peval(n["c"][0], env, lookup)
    if k in ("ImplicitCastExpr", "CStyleCastExpr"):
        v = peval(n["c"][0], env, lookup)
        return v
    if lookup is not None:
        r = lookup(n, env)
        if r is not None:
            return r
    if "cv" in n and k != "DeclRefExpr":
        return n["cv"]
    if k in ("IntegerLiteral", "CharacterLiteral"):
        return n["v"]
    if k == "DeclRefExpr":
        if n.get("dk") == "enum":
            return n["v"]
        return env.get(n["n"])
    if k == "UnaryOperator":
        v = peval(n["c"][0], env, lookup)
        if v is None:
            return None
        return {"!": int(not v), "-": -v, "~": ~v, "+": v}.get(n["op"])
    if k == "BinaryOperator":
        op = n["op"]
        a = peval(n["c"][0], env, lookup)
        if op == "&&":
            if a is not None and not a:
                return 0
            b = peval(n["c"][1], env, lookup)
            if b is not None and not b:
                return 0
            return 1 if (a is not None and b is not None) else None
        if op == "||":
            if a is not None and a:
                return 1
            b = peval(n["c"][1], env, lookup)
            if b is not None and b:
                return 1
            return 0 if (a is not None and b is not None) else None
        if op == "=":
            return None
        b = peval(n["c"][1], env, lookup)
        if a is None or b is None:
            return None
        try:
            return {
                "+": a + b, "-": a - b, "*": a * b, "&": a & b, "|": a | b, "^": a ^ b,
                "<<": a << b if 0 <= b < 64 else None, ">>": a >> b if 0 <= b < 64 else None,
                "/": (abs(a) // abs(b)) * (1 if (a >= 0) == (b >= 0) else -1) if b else None,
                "%": (abs(a) % abs(b)) * (1 if a >= 0 else -1) if b else None,
                "==": int(a == b), "!=": int(a != b), "<": int(a < b), "<=": int(a <= b), ">": int(a > b), ">=": int(a >= b),
            }.get(op)
        except Exception:
            return None
    if k == "ConditionalOperator":
        c = peval(n["c"][0], env, lookup)
        if c is None:
            a, b = peval(n["c"][1], env, lookup), peval(n["c"][2], env, lookup)
            return a if a == b else None
        return peval(n["c"][1] if c else n["c"][2], env, lookup)
    return None
