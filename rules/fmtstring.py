"""Format strings are program text, never input text.

Every function of the repository that takes a printf-style format followed by
`...` (bufPrintf, strPrintf, afprintf, ostreamPrintf, bug, sprintf, ...; found
from the declarations: variadic, last named parameter a character pointer)
interprets `%` in that argument and then reads as many variadic arguments as
the text asks for.  If the text is derived from the source being compiled
(`%` is an identifier character of the language), a six-`%s` identifier makes
the error reporter read six pointers that were never passed.

Rule: the format argument of every such call is
  * a string literal, or a conditional expression of string literals;
  * a message of the catalogue (`comsgString(MSG)`), which is program text;
  * a local variable all of whose assignments in the function are of those
    kinds;
  * a parameter of the enclosing function, when that function is itself a
    forwarder (variadic or taking a va_list) -- its callers are then checked
    as callers of a printf-style function;
  * an entry of a constant table of string literals.
Anything else is a violation unless frozen with its reason.
"""
from . import common
from .common import AnalysisBroken, walk, strip, render

CATALOGUE = ("comsgString",)
EXTRA = {}
ISO_PRINTF = {"printf": 0, "fprintf": 1, "sprintf": 1, "snprintf": 2}


def _fmt_index(d):
    """index of the format parameter of a printf-style declaration, or None"""
    if not d or not d.get("variadic") or not d.get("params"):
        return None
    last = d["params"][-1]
    t = last.get("t", "").replace("const ", "").replace("__restrict", "").replace("restrict", "").replace(" ", "")
    if t not in ("char*", "String"):
        return None
    nm = (last.get("n") or "").lower()
    if d.get("n") in ISO_PRINTF:
        return len(d["params"]) - 1
    unnamed_printf = nm == "" and (d.get("n", "").endswith("rintf") or d.get("n", "").endswith("PromptPrint"))
    if not ("fmt" in nm or "format" in nm or unnamed_printf):
        return None                    # a variadic function whose last named parameter is a string but not a format (strlConcat)
    return len(d["params"]) - 1


def _lit(n, env=None, depth=0):
    """program text: literal, catalogue message, conditional of such, a variable of `env` (name -> list of assigned
    expressions) all of whose values are such, an entry of a table of literals"""
    s = strip(n)
    if s is None or depth > 4:
        return False
    if s["k"] == "StringLiteral":
        return True
    if s["k"] == "ConditionalOperator":
        return _lit(s["c"][1], env, depth + 1) and _lit(s["c"][2], env, depth + 1)
    if s["k"] == "CallExpr" and s.get("callee") in CATALOGUE:
        return True
    if s["k"] == "InitListExpr":
        return all(_lit(c, env, depth + 1) for c in s["c"] if c is not None)
    if env is not None and s["k"] == "DeclRefExpr" and s["n"] in env:
        vals = env[s["n"]]
        return bool(vals) and all(_lit(v, env, depth + 1) for v in vals)
    if env is not None and s["k"] == "ArraySubscriptExpr":
        b = s
        while b is not None and b["k"] == "ArraySubscriptExpr":
            b = strip(b["c"][0])
        if b is not None and b["k"] == "DeclRefExpr" and b["n"] in env:
            vals = env[b["n"]]
            return bool(vals) and all(_lit(v, env, depth + 1) for v in vals)
    return False


def digest(f):
    base = f.unit.split("/")[-1]
    out = []
    # file-scope variables that are never assigned in this unit and are initialised with program text
    genv = {}
    tainted = set()
    gassign = {}
    for name, fn in f.funcs.items():
        if "body" in fn:
            for x in walk(fn["body"]):
                if x["k"] == "BinaryOperator" and x["op"] == "=":
                    l = strip(x["c"][0])
                    if l is not None and l["k"] == "DeclRefExpr":
                        gassign.setdefault(l["n"], []).append(x["c"][1])
                        continue
                if x["k"] == "BinaryOperator" and x["op"] in ("=", "+=") or x["k"] == "UnaryOperator" and x["op"] in ("++", "post++", "&"):
                    l = strip(x["c"][0])
                    while l is not None and l["k"] in ("ArraySubscriptExpr", "MemberExpr"):
                        l = strip(l["c"][0])
                    if l is not None and l["k"] == "DeclRefExpr":
                        tainted.add(l["n"])
    for n, v in f.vars.items():
        if v.get("init") is not None and n not in tainted and (v.get("static") or not gassign.get(n) or True):
            genv[n] = [v["init"]] + gassign.get(n, [])
    for name, fn in f.funcs.items():
        if "body" not in fn or not fn.get("file", "").endswith(base):
            continue
        forwarder = bool(fn.get("variadic")) or any("va_list" in (p.get("t") or "") for p in fn.get("params", []))
        params = set(p["n"] for p in fn.get("params", []))
        assigns = {}
        for x in walk(fn["body"]):
            if x["k"] == "BinaryOperator" and x["op"] == "=":
                l = strip(x["c"][0])
                if l is not None and l["k"] == "DeclRefExpr":
                    assigns.setdefault(l["n"], []).append(x["c"][1])
            elif x["k"] == "DeclStmt":
                for d in x.get("decls", []):
                    if d.get("init") is not None:
                        assigns.setdefault(d["n"], []).append(d["init"])
                    else:
                        assigns.setdefault(d["n"], [])
        for x in walk(fn["body"]):
            if x["k"] != "CallExpr":
                continue
            cal = x.get("callee")
            i = ISO_PRINTF.get(cal)           # declared in system headers, which the extractor does not list
            if i is None:
                i = EXTRA.get(cal)             # functions found to hand a parameter on as a format (second pass)
            if i is None:
                i = _fmt_index(f.funcs.get(cal))
            if i is None:
                continue
            args = x["c"][1:]
            if len(args) <= i:
                continue
            a = strip(args[i])
            verdict, why = "other", render(a)[:60] if a is not None else "?"
            env = dict(genv)
            for k_, v_ in assigns.items():
                if k_ not in params:
                    env[k_] = v_
            if a is not None and a["k"] == "StringLiteral":
                verdict = "literal"
            elif _lit(a, env):
                verdict = "program-text"
            elif forwarder:
                verdict = "forwarded"
            elif a is not None and a["k"] == "DeclRefExpr" and a["n"] in params and a["n"] not in assigns:
                verdict = "wrapper:%d" % [p_["n"] for p_ in fn["params"]].index(a["n"])          # the printf implementation itself, working on (pieces of) its caller's format
            elif a is not None and a["k"] == "DeclRefExpr" and a["n"] in assigns:
                bad = [render(strip(v))[:50] for v in assigns[a["n"]] if not _lit(v, env)]
                why = "%s := %s" % (a["n"], "; ".join(bad))
            out.append((name, x["l"], cal, verdict, why))
    return out


def report(rep, rule, units=None, config="compiler", floor=None, frozen=None):
    frozen = frozen or {}
    units = units or common.compiler_units()
    global EXTRA
    EXTRA = {}
    for _round in range(3):
        dig = common.map_units(units, digest, config, all_trees=True)
        found = {}
        for u in dig:
            for fn, line, cal, verdict, why in dig[u]:
                if verdict.startswith("wrapper:"):
                    found[fn] = int(verdict.split(":")[1])
        if all(k in EXTRA for k in found):
            break
        EXTRA.update(found)               # inherited by the workers of the next round (fork)
    n = 0
    seen_frozen = set()
    for u in sorted(dig):
        base = u.split("/")[-1]
        for fn, line, cal, verdict, why in dig[u]:
            n += 1
            key = "format-is-program-text:%s:%s:%s" % (base, fn, cal)
            where = "%s:%d (%s)" % (base, line, fn)
            if verdict in ("literal", "program-text", "forwarded") or verdict.startswith("wrapper:"):
                rep.ok(rule, key + "@%d" % line, nontrivial=(verdict != "literal"))
            elif (base, fn) in frozen:
                seen_frozen.add((base, fn))
                rep.ok(rule, key + "@%d" % line, sample={"frozen": frozen[(base, fn)]})
            else:
                rep.violation(rule, key, where,
                              "%s interprets its format argument `%s`, which is not program text (a literal, a catalogue message, or "
                              "a local holding one): a `%%` in it makes %s read variadic arguments that were never passed. `%%` is "
                              "an identifier character of the language, so text taken from the source can contain it" % (cal, why, cal))
    if floor is not None:
        rep.floor("printf-style calls", n, floor)
    for k in frozen:
        if k not in seen_frozen:
            rep.note("%s: frozen exception %s no longer matches a call" % (rule, k))
    return n
