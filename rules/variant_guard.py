"""Tagged-union discipline for AbSyn nodes in one unit: a variant member
(`x->abApply...`, `x->abDeclare...`) may be read only where the node's tag is
known to be the matching AB_ tag:

 (a) x is the first parameter of a function that the unit only calls under
     `case AB_T:` labels of a switch (tag dispatch), and T matches;
 (b) the access is inside a `case AB_T:` group of a switch over abTag(x);
 (c) an enclosing if / && / ?: condition, or a preceding statement of the
     form `if (!(tag test) ...) return|continue|break|goto;`, establishes
     abTag(x) == AB_T (abHasTag(x, AB_T) expands to that comparison).
Anything else is reported.  Header members (abHdr, abGen) are common to all
variants and not checked.
"""
import re

from . import common
from .common import strip, walk, calls, render, switch_cases, ends_flow

COMMON = {"abHdr", "abGen"}


def _tag_facts(cond, sense, out):
    """(base text, tag) pairs known when cond evaluates to sense"""
    c = strip(cond)
    if c is None:
        return
    if c["k"] == "BinaryOperator" and c["op"] == "&&" and sense:
        _tag_facts(c["c"][0], True, out); _tag_facts(c["c"][1], True, out)
    elif c["k"] == "BinaryOperator" and c["op"] == "||" and not sense:
        _tag_facts(c["c"][0], False, out); _tag_facts(c["c"][1], False, out)
    elif c["k"] == "UnaryOperator" and c["op"] == "!":
        _tag_facts(c["c"][0], not sense, out)
    elif c["k"] == "BinaryOperator" and c["op"] in ("==", "!=") and (c["op"] == "==") == sense:
        for a, b in ((c["c"][0], c["c"][1]), (c["c"][1], c["c"][0])):
            t = common.enum_name(b)
            m = strip(a)
            if t and t.startswith("AB_") and m is not None and m["k"] == "MemberExpr" and m.get("n") == "tag":
                h = strip(m["c"][0])
                if h is not None and h["k"] == "MemberExpr" and h.get("n") == "abHdr":
                    out.add((render(strip(h["c"][0])), t))


def _switch_subject(sw):
    s = strip(sw["c"][0])
    if s is not None and s["k"] == "MemberExpr" and s.get("n") == "tag":
        h = strip(s["c"][0])
        if h is not None and h["k"] == "MemberExpr" and h.get("n") == "abHdr":
            return render(strip(h["c"][0]))
    return None


def scan(facts, unit_file):
    funcs = {n: fn for n, fn in facts.funcs.items() if "body" in fn and fn.get("file", "").endswith(unit_file)}
    # (a) tag dispatch: callee -> set of tags under which it is called with the switch subject, or None if also called elsewhere
    dispatch, elsewhere = {}, set()
    for name, fn in funcs.items():
        under = set()
        for sw in [x for x in walk(fn["body"]) if x["k"] == "SwitchStmt"]:
            subj = _switch_subject(sw)
            if subj is None:
                continue
            try:
                groups = switch_cases(sw)
            except Exception:
                continue
            for gi, g in enumerate(groups):
                tags = set(l[0] for l in g["labels"] if l[0] and l[0].startswith("AB_"))
                # labels of groups falling into this one
                j = gi
                while j > 0 and groups[j - 1]["falls"]:
                    j -= 1
                    tags |= set(l[0] for l in groups[j]["labels"] if l[0] and l[0].startswith("AB_"))
                if any(l[0] == "default" for l in g["labels"]):
                    tags = None
                for st in g["stmts"]:
                    for c in calls(st):
                        if c.get("callee") in funcs and len(c["c"]) >= 2 and render(strip(c["c"][1])) == subj:
                            under.add(c["id"])
                            if tags is None:
                                elsewhere.add(c["callee"])
                            else:
                                dispatch.setdefault(c["callee"], set()).update(tags)
        for c in calls(fn["body"]):
            if c.get("callee") in funcs and c["id"] not in under:
                elsewhere.add(c["callee"])
    sites = []
    for name, fn in funcs.items():
        par = common.parents(fn["body"])
        p0 = fn["params"][0]["n"] if fn.get("params") else None
        for x in walk(fn["body"]):
            if x["k"] != "MemberExpr" or not re.match(r"ab[A-Z]", x.get("n", "")) or x["n"] in COMMON:
                continue
            base = strip(x["c"][0])
            if base is None:
                continue
            btxt = render(base)
            tag = "AB_" + x["n"][2:]
            how = None
            if base["k"] == "DeclRefExpr" and base["n"] == p0 and name not in elsewhere and tag in dispatch.get(name, ()):
                how = "dispatch"
            known = set()
            ch, p = x, par.get(x["id"])
            while p is not None and how is None:
                k = p["k"]
                if k == "IfStmt":
                    if p["c"][1] is not None and p["c"][1]["id"] == ch["id"]:
                        _tag_facts(p["c"][0], True, known)
                    elif p["c"][2] is not None and p["c"][2]["id"] == ch["id"]:
                        _tag_facts(p["c"][0], False, known)
                elif k == "BinaryOperator" and p["op"] == "&&" and p["c"][1]["id"] == ch["id"]:
                    _tag_facts(p["c"][0], True, known)
                elif k == "BinaryOperator" and p["op"] == "||" and p["c"][1]["id"] == ch["id"]:
                    _tag_facts(p["c"][0], False, known)
                elif k == "ConditionalOperator" and p["c"][1]["id"] == ch["id"]:
                    _tag_facts(p["c"][0], True, known)
                elif k == "ConditionalOperator" and p["c"][2]["id"] == ch["id"]:
                    _tag_facts(p["c"][0], False, known)
                elif k in ("ForStmt", "WhileStmt"):
                    cond = p["c"][1] if k == "ForStmt" else p["c"][0]
                    body = p["c"][3] if k == "ForStmt" else p["c"][1]
                    if body is not None and body["id"] == ch["id"] and cond is not None:
                        _tag_facts(cond, True, known)
                elif k == "CompoundStmt":
                    # preceding `if (cond) <leaves>;` gives the facts of !cond
                    for st in p["c"]:
                        if st is None:
                            continue
                        if st["id"] == ch["id"]:
                            break
                        if st["k"] == "IfStmt" and st["c"][2] is None and st["c"][1] is not None and ends_flow(st["c"][1]):
                            _tag_facts(st["c"][0], False, known)
                        # an assignment to the base expression invalidates what was known about it
                        for y in walk(st):
                            if y["k"] == "BinaryOperator" and y["op"] == "=" and render(strip(y["c"][0])) == btxt:
                                known = set(kk for kk in known if kk[0] != btxt)
                elif k == "SwitchStmt":
                    subj = _switch_subject(p)
                    if subj == btxt:
                        try:
                            groups = switch_cases(p)
                        except Exception:
                            groups = []
                        for gi, g in enumerate(groups):
                            if any(any(z["id"] == x["id"] for z in walk(st)) for st in g["stmts"]):
                                tags = set(l[0] for l in g["labels"])
                                j = gi
                                while j > 0 and groups[j - 1]["falls"]:
                                    j -= 1
                                    tags |= set(l[0] for l in groups[j]["labels"])
                                if tags == {tag}:
                                    how = "switch-case"
                if (btxt, tag) in known:
                    how = "condition"
                ch, p = p, par.get(p["id"])
            sites.append({"func": name, "line": x["l"], "member": x["n"], "base": btxt, "tag": tag, "how": how})
    return sites
