"""C17: damaged library files are refused, never silently used (read discipline).

R1  every read from a library / archive file has its byte count checked;
R2  the header validator's verdict is consumed at every call;
R3  the section buffer has exactly the size that was read, and a tag read
    from a file buffer is range-reduced or range-tested before it indexes a
    global table.
"""
import json
import os

from . import common, c07_total
from .common import AnalysisBroken, strip, walk, calls, render, const_value

EXPLANATION = (
    "R1: every call of fread/fscanf/fgets in lib.c and archive.c (after expansion of FILE_GET_CHARS/BYTE/HINT/SINT) and in "
    "the fileRd* helpers of file.c that are referenced from the compiler must have its result compared with the requested "
    "count: the call is an operand of a comparison, or its value is stored in a variable that is compared in the same "
    "function. A result discarded through IgnoreResult (`if (e);`), a cast to void or an expression statement is a violation. "
    "Sites that read archive formats this tool chain never writes (AIX, CMS) are frozen exceptions with a reason. R2: the "
    "result of every call of libChkHeader is tested. R3: in libGetSection the buffer handed to the decoders is created from "
    "the byte string that was read with the checked count (bufCapture(s, cc) / bufNeed(..., cc) with the same cc). "
    "R4: the loops and tests of libChkHeader that refuse a header constrain hdr.Section[j].name and .offset for every j "
    "in [LIB_INDEX_START, hdr.numSect) (interval arithmetic over loop headers of the form i = c; i < bound; i += 1; the "
    "entry constrained by a test is the highest index it mentions). "
    "R5 (use before validation): in libGetHeader, before the call of libChkHeader, no loop condition mentions a header field that "
    "was filled from the file buffer (or a local computed from one), and such a value indexes an array only under an enclosing "
    "`value < constant` test. R6: arSeek declares the end of an archive only by comparing the position itself with the archive "
    "size (pos >= size); bytes left over are then read by the checked reads of R1. Not decided: that every corruption inside a complete section is detected (the format has no checksums).")

FROZEN = os.path.join(os.path.dirname(__file__), "frozen")
READS = ("fread", "fscanf", "fgets")
UNITS = ["lib.c", "archive.c", "file.c"]


def role_of(par, c):
    p = par.get(c["id"])
    ch = c
    while p is not None and p["k"] in ("ParenExpr", "ImplicitCastExpr"):
        ch, p = p, par.get(p["id"])
    if p is None:
        return "statement", None
    if p["k"] == "CStyleCastExpr" and p.get("ck") == "ToVoid":
        return "void-cast", None
    if p["k"] == "BinaryOperator" and p["op"] in ("==", "!=", "<", "<=", ">", ">="):
        return "compared", None
    if p["k"] == "BinaryOperator" and p["op"] in ("&&", "||"):
        return "compared", None
    if p["k"] == "UnaryOperator" and p["op"] == "!":
        return "compared", None
    if p["k"] == "IfStmt" and p["c"][0]["id"] == ch["id"]:
        empty = (p["c"][1] is None or p["c"][1]["k"] == "NullStmt") and p["c"][2] is None
        return ("ignored (IgnoreResult)", None) if empty else ("compared", None)
    if p["k"] in ("WhileStmt", "ForStmt", "DoStmt"):
        return "compared", None
    if p["k"] == "BinaryOperator" and p["op"] == "=":
        t = strip(p["c"][0])
        return "assigned", (t.get("did") if t is not None else None)
    if p["k"] == "DeclStmt":
        return "assigned", None
    if p["k"] == "CompoundStmt":
        return "statement", None
    if p["k"] == "ReturnStmt":
        return "returned", None
    return p["k"], None


def _affine(n, var_did):
    """n as (base, k): `base + k` where base is 'i' (the loop variable), a rendered expression, or None for a constant."""
    n = strip(n)
    if n is None:
        return None
    cv = common.const_value(n)
    if cv is not None:
        return (None, cv)
    if n["k"] == "DeclRefExpr" and n.get("did") == var_did:
        return ("i", 0)
    if n["k"] == "BinaryOperator" and n["op"] in ("+", "-"):
        a, b = _affine(n["c"][0], var_did), _affine(n["c"][1], var_did)
        if a is None or b is None:
            return None
        if b[0] is None:
            return (a[0], a[1] + (b[1] if n["op"] == "+" else -b[1]))
        if a[0] is None and n["op"] == "+":
            return (b[0], a[1] + b[1])
        return None
    return (render(n), 0)


def header_cover(fn):
    """R4 facts for libChkHeader: which indexes of hdr.Section[] have their
    `name` / `offset` field constrained by a test that leads to a refusal.
    Returns {field: [(lo, (hi_base, hi_k))]} as half-open intervals; a single
    constant index c is (c, (None, c+1))."""
    par = common.parents(fn["body"])
    cover = {"name": [], "offset": []}
    problems = []

    def enclosing_for(n):
        p = par.get(n["id"])
        while p is not None:
            if p["k"] == "ForStmt":
                return p
            p = par.get(p["id"])
        return None

    def loop_range(fs):
        init, cond, inc = fs["c"][0], fs["c"][1], fs["c"][2]
        if init is None or init["k"] != "BinaryOperator" or init["op"] != "=":
            return None
        v = strip(init["c"][0])
        lo = common.const_value(init["c"][1])
        if v is None or v["k"] != "DeclRefExpr" or lo is None:
            return None
        did = v["did"]
        cond = strip(cond)
        if cond is None or cond["k"] != "BinaryOperator" or cond["op"] not in ("<", "<=", ">", ">="):
            return None
        if cond["op"] in (">", ">="):       # bound > i  ==  i < bound
            cond = dict(cond, op={">": "<", ">=": "<="}[cond["op"]], c=[cond["c"][1], cond["c"][0]])
        l = strip(cond["c"][0])
        if l is None or l.get("did") != did:
            return None
        hi = _affine(cond["c"][1], did)
        if hi is None or hi[0] == "i":
            return None
        if cond["op"] == "<=":
            hi = (hi[0], hi[1] + 1)
        inc = strip(inc)
        step_ok = inc is not None and ((inc["k"] == "CompoundAssignOperator" and inc["op"] == "+=" and common.const_value(inc["c"][1]) == 1)
                                       or (inc["k"] == "UnaryOperator" and inc["op"] in ("++", "post++", "pre++")))
        if not step_ok:
            return None
        return did, lo, hi

    # every `Section[idx].field` occurrence, grouped by the comparison (or declaration) it stands in
    groups = {}
    for x in walk(fn["body"]):
        if x["k"] == "MemberExpr" and x.get("n") in cover:
            arr = strip(x["c"][0])
            if arr is None or arr["k"] != "ArraySubscriptExpr":
                continue
            # the statement-level owner: nearest IfStmt condition / DeclStmt
            p, ch = par.get(x["id"]), x
            while p is not None and p["k"] not in ("IfStmt", "DeclStmt", "ForStmt", "CompoundStmt"):
                ch, p = p, par.get(p["id"])
            if p is None or p["k"] in ("ForStmt", "CompoundStmt"):
                continue
            groups.setdefault((p["id"], x["n"]), []).append((x, arr))
    for (owner, field), occ in groups.items():
        fs = enclosing_for(occ[0][0])
        if fs is None:
            idxs = [common.const_value(a["c"][1]) for _, a in occ]
            if any(i is None for i in idxs):
                problems.append("line %d: non-constant index outside a loop" % occ[0][0]["l"])
                continue
            c = max(idxs)
            cover[field].append((c, (None, c + 1), occ[0][0]["l"]))
        else:
            lr = loop_range(fs)
            if lr is None:
                problems.append("line %d: loop header not of the form `i = const; i < bound; i += 1`" % fs["l"])
                continue
            did, lo, hi = lr
            offs = []
            for _, a in occ:
                af = _affine(a["c"][1], did)
                if af is None or af[0] != "i":
                    problems.append("line %d: index is not the loop variable plus a constant" % a["l"])
                    offs = None
                    break
                offs.append(af[1])
            if offs is None:
                continue
            d = max(offs)    # the entry constrained by the test is the highest one; lower ones are its (already constrained) base
            cover[field].append((lo + d, (hi[0], hi[1] + d), fs["l"]))
    return cover, problems


def check_header_cover(rep, f):
    fn = f.func("libChkHeader")
    # first entry: where the reader (libGetHeader) starts filling hdr.Section[]
    start = None
    for x in walk(f.func("libGetHeader")["body"]):
        if x["k"] == "ForStmt" and x["c"][0] is not None and x["c"][0]["k"] == "BinaryOperator" and x["c"][0]["op"] == "=":
            if any(m["k"] == "MemberExpr" and m.get("n") == "offset" for m in walk(x["c"][3])):
                start = common.const_value(x["c"][0]["c"][1])
    if start is None:
        raise AnalysisBroken("libGetHeader: the loop that reads hdr.Section[].offset was not found")
    cover, problems = header_cover(fn)
    if problems:
        raise AnalysisBroken("libChkHeader: " + "; ".join(problems))
    want_hi = ("lib->hdr.numSect", 0)
    for field in ("name", "offset"):
        key = "libChkHeader:covers-all-entries:" + field
        iv = sorted(cover[field], key=lambda t: t[0])
        if not iv:
            raise AnalysisBroken("libChkHeader no longer tests hdr.Section[].%s" % field)
        pos = (None, start)     # covered up to here (exclusive)
        gap = None
        for lo, hi, line in iv:
            if pos[0] is None:
                if lo > pos[1]:
                    gap = "entries %d..%d" % (pos[1], lo - 1)
                    break
                if hi[0] is None:
                    pos = (None, max(pos[1], hi[1]))
                else:
                    pos = hi
            # once the cover is symbolic (reaches numSect+k) further intervals cannot extend it soundly
        if gap is None and pos != want_hi:
            if pos[0] == want_hi[0] and pos[1] > 0:
                gap = None    # covers more than the entries in use: harmless here, reading past numSect is K/R3 territory
            else:
                gap = "entries from %s up to lib->hdr.numSect" % ("%s%+d" % (pos[0], pos[1]) if pos[0] else pos[1])
        if gap is None:
            rep.ok("R4", key, sample={"intervals": [[lo, "%s%+d" % (hi[0], hi[1]) if hi[0] else hi[1]] for lo, hi, _ in iv]})
        else:
            rep.violation("R4", key, "lib.c:%d (libChkHeader)" % iv[0][2],
                          "the header validator does not constrain hdr.Section[].%s for %s, although libGetSection seeks to and reads "
                          "every entry below numSect: a damaged %s there is used silently" % (field, gap, field))


def check_use_before_validate(rep, f):
    """R5: in libGetHeader nothing read from the file steers a loop or an array access before libChkHeader has judged it."""
    fn = f.func("libGetHeader")
    body = fn["body"]
    chk = [c for c in calls(body, "libChkHeader")]
    if len(chk) != 1:
        raise AnalysisBroken("libGetHeader: expected one call of libChkHeader")
    chk_line = chk[0]["l"]
    tainted = set()
    for x in walk(body):
        if x["k"] == "BinaryOperator" and x["op"] == "=":
            l = strip(x["c"][0])
            if l is not None and l["k"] == "MemberExpr" and any((c.get("callee") or "").startswith("bufGet") for c in calls(x["c"][1])):
                tainted.add(l["n"])
    if len(tainted) < 5:
        raise AnalysisBroken("libGetHeader: header fields filled from the buffer not recognised (%s)" % sorted(tainted))

    def mentions(n, extra=()):
        for y in walk(n):
            if y["k"] == "MemberExpr" and y.get("n") in tainted:
                return y["n"]
            if y["k"] == "DeclRefExpr" and y["n"] in extra:
                return y["n"]
        return None
    # locals defined from tainted fields
    tl = set()
    for x in walk(body):
        for d in (x.get("decls", []) if x["k"] == "DeclStmt" else []):
            if d.get("init") is not None and mentions(d["init"]):
                tl.add(d["n"])
        if x["k"] == "BinaryOperator" and x["op"] == "=":
            l = strip(x["c"][0])
            if l is not None and l["k"] == "DeclRefExpr" and mentions(x["c"][1]):
                tl.add(l["n"])
    par = common.parents(body)
    nloops = nidx = 0
    for x in walk(body):
        if x.get("l", 0) >= chk_line:
            continue
        if x["k"] in ("ForStmt", "WhileStmt", "DoStmt"):
            cond = x["c"][1] if x["k"] in ("ForStmt", "DoStmt") else x["c"][0]
            nloops += 1
            m = mentions(cond, tl) if cond is not None else None
            key = "libGetHeader:loop-bound@%d" % nloops
            if m:
                rep.violation("R5", key, "lib.c:%d (libGetHeader)" % x["l"],
                              "the loop bound `%s` uses '%s', which was just read from the file and has not yet been judged by "
                              "libChkHeader: a damaged count makes the loop run past the section table or skip sections" % (render(cond), m))
            else:
                rep.ok("R5", key, sample={"loop": render(cond)} if nloops == 1 else None)
        if x["k"] == "ArraySubscriptExpr":
            m = mentions(x["c"][1], tl)
            if not m:
                continue
            nidx += 1
            key = "libGetHeader:index:%s" % m
            # enclosing condition must bound the same variable against a constant
            ok = False
            ch, p = x, par.get(x["id"])
            while p is not None:
                if p["k"] == "IfStmt" and p["c"][1] is not None and any(z["id"] == ch["id"] for z in [p["c"][1]]):
                    c = strip(p["c"][0])
                    if c is not None and c["k"] == "BinaryOperator" and c["op"] in ("<", "<=") and mentions(c["c"][0], tl) == m \
                            and common.const_value(c["c"][1]) is not None:
                        ok = True
                ch, p = p, par.get(p["id"])
            if ok:
                rep.ok("R5", key)
            else:
                rep.violation("R5", key, "lib.c:%d (libGetHeader)" % x["l"],
                              "'%s' comes from the file and indexes an array before libChkHeader has judged the header, without a bound test" % m)
    if nloops < 2:
        raise AnalysisBroken("libGetHeader: the loops that fill the section table were not found")


def check_archive_end(rep):
    """R6: the archive walker declares 'end of archive' only when no byte is left; leftover bytes are read and judged by R1."""
    f = common.extract("archive.c", trees=["arSeek"])
    fn = f.func("arSeek")
    pos = fn["params"][1]["n"] if len(fn.get("params", [])) == 2 else None
    ends = []
    for x in walk(fn["body"]):
        if x["k"] == "IfStmt" and x["c"][1] is not None and any(y["k"] == "ReturnStmt" and y["c"] and common.const_value(y["c"][0]) == 0
                                                                 for y in walk(x["c"][1])):
            ends.append(x)
    if pos is None or len(ends) != 1:
        raise AnalysisBroken("arSeek: `if (<end test>) { ...; return false; }` not recognised")
    c = strip(ends[0]["c"][0])
    ok = False
    if c is not None and c["k"] == "BinaryOperator" and c["op"] in (">=", "==", "<="):
        a, b = strip(c["c"][0]), strip(c["c"][1])
        if c["op"] == "<=":
            a, b = b, a              # size <= pos
        size_like = b is not None and (b["k"] == "DeclRefExpr" and "size" in b["n"].lower() or common.render(b).startswith("arSize"))
        ok = a is not None and a["k"] == "DeclRefExpr" and a["n"] == pos and size_like
    if ok:
        rep.ok("R6", "arSeek:end-only-at-size", sample={"test": common.render(c)})
    else:
        rep.violation("R6", "arSeek:end-only-at-size", "archive.c:%d (arSeek)" % ends[0]["l"],
                      "end of archive is declared by `%s`, i.e. also while bytes remain after the position: a member cut off inside its "
                      "header or data is dropped as if the archive ended there, instead of being read and reported as truncated"
                      % common.render(c))


def check_refusal_final(rep):
    """R7: a failed check of a library file ends the use of that library.  In lib.c every `if` whose condition compares the
    result of a read with the requested count (`fread(...) != n`) or negates the header validator (`!libChkHeader(lib)`) must
    not fall out of its branch: the branch ends in a call that does not return (comsgFatal, ...) or in a `return`.  A report
    that returns (comsgError, or a callee chosen at run time) lets the function go on to capture the short buffer or hand the
    damaged library to its caller, in whatever mode the branch then continues."""
    f = common.extract("lib.c", all_trees=True)
    n = 0
    for name, fn in sorted(f.funcs.items()):
        if "body" not in fn or not fn.get("file", "").endswith("lib.c"):
            continue
        for i in walk(fn["body"]):
            if i["k"] != "IfStmt":
                continue
            cond = i["c"][0]
            kind = None
            for y in walk(cond):
                if y["k"] == "BinaryOperator" and y["op"] in ("!=", "<") and any(z["k"] == "CallExpr" and z.get("callee") == "fread" for z in walk(y)):
                    kind = "short read"
                if y["k"] == "UnaryOperator" and y["op"] == "!" and (strip(y["c"][0]) or {}).get("callee") == "libChkHeader":
                    kind = "header rejected by libChkHeader"
                if y["k"] == "BinaryOperator" and y["op"] == "==" and const_value(y["c"][1]) == 0 and \
                        (strip(y["c"][0]) or {}).get("callee") == "libChkHeader":
                    kind = "header rejected by libChkHeader"
            if kind is None:
                continue
            n += 1
            then = i["c"][1]
            last = then
            while last is not None and last["k"] == "CompoundStmt" and last["c"]:
                last = last["c"][-1]
            while last is not None and last["k"] in ("ParenExpr", "CStyleCastExpr", "ImplicitCastExpr"):
                last = last["c"][0]
            key = "refusal-final:%s@%d" % (name, sum(1 for j in walk(fn["body"]) if j["k"] == "IfStmt" and j["l"] <= i["l"]))
            where = "lib.c:%d (%s)" % (i["l"], name)
            if last is not None and common.ends_flow(last):
                rep.ok("R7", key, sample={"check": kind})
            else:
                rep.violation("R7", key, where,
                              "after a %s the branch can complete normally (it does not end in a non-returning call or a return): "
                              "the function carries on with the damaged library -- the short buffer is captured, or the library "
                              "whose header was rejected is returned to the caller and used" % kind)
    rep.floor("failed-check branches in lib.c", n, 3)


def digest(f):
    out = {"reads": [], "chk": [], "referenced": set(), "refs_by_fn": {}}
    for name, fn in f.funcs.items():
        if "body" not in fn:
            continue
        refs = set(x["n"] for x in walk(fn["body"]) if x["k"] == "DeclRefExpr" and x.get("dk") == "fn")
        if not fn["file"].endswith(f.unit):
            continue
        out["refs_by_fn"][name] = refs
        if f.unit != "file.c":
            out["referenced"] |= refs
        par = common.parents(fn["body"])
        compared_vars = set()
        for x in walk(fn["body"]):
            if x["k"] == "BinaryOperator" and x["op"] in ("==", "!=", "<", "<=", ">", ">="):
                for y in x["c"]:
                    s = strip(y)
                    if s is not None and s["k"] == "DeclRefExpr":
                        compared_vars.add(s.get("did"))
        for c in calls(fn["body"]):
            cal = c.get("callee")
            if cal in READS:
                r, did = role_of(par, c)
                if r == "assigned" and did in compared_vars:
                    r = "compared"
                out["reads"].append((f.unit, name, c["l"], cal, r))
            if cal == "libChkHeader":
                r, did = role_of(par, c)
                out["chk"].append((f.unit, name, c["l"], r))
    return out


SRC = ("bufGetByte", "bufGetHInt", "bufGetSInt", "bufRdByte", "bufRdHInt", "bufRdSInt", "bufRdUByte", "bufRdUHInt",
       "bufGetc", "bufRdChar")


def taint_digest(f):
    out = []
    for name, fn in f.funcs.items():
        if "body" not in fn or not fn["file"].endswith(f.unit):
            continue
        # assignments in source order
        events = []
        for x in walk(fn["body"]):
            if x["k"] == "BinaryOperator" and x["op"] == "=":
                t = strip(x["c"][0])
                if t is not None and t["k"] == "DeclRefExpr" and t.get("dk") in ("var", "parm"):
                    src = any(c.get("callee") in SRC for c in calls(x["c"][1]))
                    san = any((y.get("mac") == "FOAM_FORMAT_REMOVE" or y.get("imac") == "FOAM_FORMAT_REMOVE") for y in walk(x["c"][1]))
                    events.append((x["id"], "assign", t["did"], t["n"], src, san))
            if x["k"] == "DeclStmt":
                for d in x["decls"]:
                    if d.get("init") is not None and any(c.get("callee") in SRC for c in calls(d["init"])):
                        events.append((x["id"], "assign", d["did"], d["n"], True, False))
            if x["k"] == "ArraySubscriptExpr":
                base = strip(x["c"][0])
                if base is not None and base["k"] == "DeclRefExpr" and base.get("g") and base.get("tc") in ("array", "ptr"):
                    for y in walk(x["c"][1]):
                        if y["k"] == "DeclRefExpr" and y.get("dk") in ("var", "parm"):
                            events.append((x["id"], "index", y["did"], y["n"], base["n"], x))
        state = {}
        for ev in events:      # walk() is pre-order = source order for straight-line decoders
            if ev[1] == "assign":
                _, _, did, n, src, san = ev
                if src:
                    state[did] = "tainted"
                elif san and state.get(did) == "tainted":
                    state[did] = "reduced"
                elif did in state and not san:
                    state[did] = "clean" if state[did] != "tainted" else state[did]
            else:
                _, _, did, n, table, node = ev
                st = state.get(did)
                if st is None:
                    continue
                verdict = "ok:range-reduced by FOAM_FORMAT_REMOVE" if st == "reduced" else None
                if st == "tainted":
                    bnd = strip(node["c"][0]).get("bound") or (f.vars.get(table, {}).get("bound")) or 1
                    lower, upper = c07_total._dominating_tests(None, fn, node, did, bnd)
                    verdict = "ok:dominated by range tests" if (lower and upper) else "bad"
                if verdict:
                    out.append((f.unit, name, node["l"], table, n, verdict))
    return out


def both_digest(f):
    d = digest(f)
    d["taint"] = taint_digest(f)
    return d


R9_WRITERS = {
    "libNewHeader": "clears the table of a new Lib",
    "libGetHeader": "fills the table from the bytes of the file (and libChkHeader judges it)",
    "libAddSection": "writer side: a section being added to a library under construction",
    "libPutSection": "writer side: the length of a section just written",
}


def r9(rep):
    """What a library file says about itself is read once, into the section table, and then *judged* (libChkHeader; the short
    read test of libGetSection).  Nothing between the reading and the use may replace what was read by something that cannot
    fail: a length recomputed from the size of the file `because a file ends where it ends` agrees with a truncated file by
    construction, the short-read test passes against exactly the bytes that are left, and the cut library is used with stale
    bytes of the shared section buffer (exit 0, another .c and .fm).  The name/offset/length fields of hdr.Section[] are
    written only by the four confirmed functions of lib.c."""
    f = common.extract("lib.c", all_trees=True)
    n = 0
    for name, fn in sorted(f.funcs.items()):
        if "body" not in fn or not fn.get("file", "").endswith("lib.c"):
            continue
        for x in walk(fn["body"]):
            if not (x["k"] in ("BinaryOperator", "CompoundAssignOperator") and x["op"].endswith("=") and x["op"] not in ("==", "!=", "<=", ">=")):
                continue
            l = strip(x["c"][0])
            if l is None or l["k"] != "MemberExpr" or l["n"] not in ("length", "offset", "name"):
                continue
            if not any(y["k"] == "MemberExpr" and y["n"] == "Section" for y in walk(l)):
                continue
            n += 1
            key = "section-table-read-not-recomputed:%s:%s" % (name, l["n"])
            if name in R9_WRITERS:
                rep.ok("R9", key + "@%d" % x["l"], nontrivial=(name == "libGetHeader"))
            else:
                rep.violation("R9", key, "lib.c:%d (%s)" % (x["l"], name),
                              "%s overwrites the %s of a section-table entry of a library that has been read: the value the file "
                              "gave is no longer what the later checks look at -- a length derived from the file's size makes a "
                              "file cut inside its last section pass the short-read test, and the truncated library is used "
                              "silently" % (name, l["n"]))
    rep.floor("stores into the section table of lib.c", n, 8)


R11_BLIND = {"fileIsReadable", "fileIsThere", "fileIsOpenable", "osFileIsThere", "osIsReadable", "fnameType",
             "fnameParseStaticWithin", "fnameTSetType", "car", "cdr"}
R11_CONTENT = {"fileSize", "osFileSize", "fileRdOpen", "fileTryOpen", "fopen", "fread", "fgetc", "getc", "fgets", "stat", "fstat",
               "fileHash", "osFileHash", "fileContentsString", "fileGetContents", "libIsLibrary", "arIsArchive", "fileModTime"}


def r11(rep):
    """A damaged library is refused by the reader that opens it -- which means the reader has to be shown it.  The search along the
    library path (fileRdFind) picks the first candidate that can be opened; what the file holds is the reader's business.  A
    search that looks at the candidate's size or content and moves on when it does not like it hides the damaged file from every
    validation: an output cut at byte 0 (what an interrupted compile leaves, outputs are written in place) is skipped, a stale
    file of the same name further along the path is used, and the compile ends with status 0 and different output.  In path.c
    the tests under which fileRdFind returns or passes over a candidate call, directly or through helpers of path.c, only
    predicates that do not look at size or content."""
    f = common.extract("path.c", all_trees=True)
    fn = f.funcs.get("fileRdFind")
    if fn is None or "body" not in fn:
        raise AnalysisBroken("path.c: fileRdFind not found")

    def closure(node, seen):
        out = set()
        for c in calls(node):
            cal = c.get("callee")
            if cal is None:
                raise AnalysisBroken("path.c: fileRdFind decides through an indirect call at line %d" % c["l"])
            g = f.funcs.get(cal)
            if g is not None and "body" in g and g.get("file", "").endswith("path.c") and cal not in seen:
                out |= closure(g["body"], seen | {cal})
            else:
                out.add(cal)
        return out

    n = 0
    for st in walk(fn["body"]):
        if st["k"] != "IfStmt":
            continue
        then = st["c"][1]
        if not any(y["k"] == "ReturnStmt" for y in walk(then)):
            continue
        n += 1
        used = closure(st["c"][0], {"fileRdFind"})
        key = "path-search-content-blind:fileRdFind@%d" % n
        bad = sorted(used & R11_CONTENT)
        unk = sorted(used - R11_CONTENT - R11_BLIND)
        if bad:
            rep.violation("R11", "path-search-content-blind:fileRdFind", "path.c:%d (fileRdFind)" % st["l"],
                          "whether this candidate is the file found depends on %s: a candidate the test does not like is passed "
                          "over without any reader having seen it, so a library cut to nothing by an interrupted compile is not "
                          "refused -- the search goes on to a stale file of the same name further along the path and the compile "
                          "succeeds with different output" % ", ".join(bad))
        elif unk:
            raise AnalysisBroken("path.c:%d (fileRdFind): the candidate test calls %s, which is in neither list of R11"
                                 % (st["l"], ", ".join(unk)))
        else:
            rep.ok("R11", key, sample={"predicates": sorted(used)})
    rep.floor("candidate tests of the path search", n, 2)


def r10(rep):
    """The header of an archive member is text: name, date, ids, mode and *size* as decimal (or octal) numbers.  They are
    converted with strtol and kept as unsigned offsets; the size decides where the next header is looked for.  `-60` is a
    well-formed number for strtol: as an unsigned size it wraps, the `next header` lies before the current one, and the table
    reader reads the same header for ever (one substituted byte: `160` -> `-60`).  In archive.c the conversion result of every
    strtol is tested against zero before the function returns it as good."""
    f = common.extract("archive.c", all_trees=True)
    n = 0
    for name, fn in sorted(f.funcs.items()):
        if "body" not in fn or not fn.get("file", "").endswith("archive.c"):
            continue
        for c in calls(fn["body"]):
            if c.get("callee") not in ("strtol", "atol", "atoi", "strtoll"):
                continue
            n += 1
            par = common.parents(fn["body"])
            p_ = par.get(c["id"])
            while p_ is not None and p_["k"] in ("ParenExpr", "ImplicitCastExpr", "CStyleCastExpr"):
                p_ = par.get(p_["id"])
            var = None
            if p_ is not None and p_["k"] == "BinaryOperator" and p_["op"] == "=":
                l = strip(p_["c"][0])
                if l is not None and l["k"] == "DeclRefExpr":
                    var = l["n"]
            tested = False
            if var is not None:
                for x in walk(fn["body"]):
                    if x["k"] == "BinaryOperator" and x["op"] in ("<", ">=", ">", "<=") and (strip(x["c"][0]) or {}).get("n") == var and const_value(x["c"][1]) == 0:
                        tested = True
            key = "header-number-not-negative:%s" % name
            if tested:
                rep.ok("R10", key + "@%d" % c["l"])
            else:
                rep.violation("R10", key, "archive.c:%d (%s)" % (c["l"], name),
                              "the result of %s goes into an unsigned offset without a test of its sign: a size field of `-60` is "
                              "accepted, wraps, and puts the next header before the current one -- the member table is read for "
                              "ever (a hang from one substituted byte)" % c.get("callee"))
    rep.floor("text-to-number conversions in archive.c", n, 1)


def run(tier, only=None):
    rep = common.Report("C17", tier, EXPLANATION)
    units = common.compiler_units()
    dig = common.map_units(units, both_digest, all_trees=True)
    referenced = set()
    for d in dig.values():
        referenced |= d["referenced"]
    # helpers of file.c are live only if reachable from another unit (closure inside file.c)
    frefs = dig["file.c"]["refs_by_fn"]
    changed = True
    while changed:
        changed = False
        for fn, refs in frefs.items():
            if fn in referenced and not refs <= referenced:
                referenced |= refs
                changed = True
    frozen = json.load(open(os.path.join(FROZEN, "c17_foreign_formats.json")))
    n = 0
    for u in UNITS:
        for unit, func, line, cal, role in dig[u]["reads"]:
            key = "%s:%s:%s" % (unit, func, cal)
            where = "%s:%d (%s)" % (unit, line, func)
            if unit == "file.c" and func not in referenced:
                rep.note("R1: %s is not referenced by the compiler (generic helper); %s result %s" % (func, cal, role))
                continue
            n += 1
            if role in ("compared", "returned"):
                rep.ok("R1", key + "@%d" % line, sample={"site": where, "role": role})
            elif "%s:%s" % (unit, func) in frozen:
                rep.note("R1 frozen (%s): %s" % (frozen["%s:%s" % (unit, func)], where))
            else:
                rep.violation("R1", key, where,
                              "the result of %s is %s: a truncated or short file leaves the buffer partly uninitialised and "
                              "the damaged data is then used" % (cal, role))
    rep.floor("library/archive read sites", n, 5)
    m = 0
    for d in dig.values():
        for unit, func, line, role in d["chk"]:
            m += 1
            key = "chk:%s:%s" % (unit, func)
            if role in ("compared",):
                rep.ok("R2", key + "@%d" % line)
            else:
                rep.violation("R2", key, "%s:%d (%s)" % (unit, line, func),
                              "libChkHeader's verdict is %s: a library with a bad header is reported and then used anyway" % role)
    rep.floor("calls of libChkHeader", m, 2)
    check_refusal_final(rep)
    # R3
    f = common.extract("lib.c", trees=["libGetSection"])
    fn = f.func("libGetSection")
    reads = calls(fn["body"], "fread")
    caps = calls(fn["body"], "bufCapture") + calls(fn["body"], "bufNeed")
    ok = False
    if len(reads) == 1:
        cnt = strip(reads[0]["c"][3])
        ok = cnt is not None and cnt["k"] == "DeclRefExpr" and all(
            strip(c["c"][2]) is not None and strip(c["c"][2]).get("did") == cnt.get("did") for c in caps) and len(caps) >= 2
    if ok:
        rep.ok("R3", "libGetSection:buffer-size-is-read-size")
    else:
        rep.violation("R3", "libGetSection:buffer-size-is-read-size", "lib.c:%d (libGetSection)" % fn["l"],
                      "the section buffer is not sized by the same count that the checked read used")
    f_hdr = common.extract("lib.c", trees=["libChkHeader", "libGetHeader"])
    check_header_cover(rep, f_hdr)
    check_use_before_validate(rep, f_hdr)
    check_archive_end(rep)
    # R3 taint
    probe = os.path.join(common.VERIF, "witness", "foam_probe.c")
    fp = common.extract(probe)
    P = fp.enum_values("verif_foam_probe")
    bound = fp.var("foamInfoTable").get("bound") if "foamInfoTable" in fp.vars else None
    if P["VP_FFO_ORIGIN"] + P["VP_FFO_SPAN"] == P["VP_FOAM_LIMIT"] and P["VP_FOAM_LIMIT"] - P["VP_FOAM_START"] == P["VP_TABLE_LEN"]:
        rep.ok("R3", "format-remove-range", sample=P)
    else:
        rep.violation("R3", "format-remove-range", "foam.c (FFO_ORIGIN/FFO_SPAN)",
                      "FOAM_FORMAT_REMOVE no longer reduces a tag byte into [0, FOAM_LIMIT): origin %d + span %d, limit %d, table %d"
                      % (P["VP_FFO_ORIGIN"], P["VP_FFO_SPAN"], P["VP_FOAM_LIMIT"], P["VP_TABLE_LEN"]))
    nt = 0
    for u in sorted(dig):
        for unit, func, line, table, var, verdict in dig[u]["taint"]:
            nt += 1
            key = "tag-index:%s:%s:%s" % (unit, func, table)
            if verdict.startswith("ok"):
                rep.ok("R3", key + "@%d" % line, sample={"site": "%s:%d" % (unit, line), "why": verdict[3:]} if nt <= 2 else None)
            else:
                rep.violation("R3", key, "%s:%d (%s)" % (unit, line, func),
                              "'%s' was read from a file buffer and indexes %s without being range-reduced or tested: a single "
                              "corrupted byte reads outside the table" % (var, table))
    rep.floor("file-derived table indexes", nt, 6)
    rep.assumptions.append("scope: files read as libraries/archives (lib.c, archive.c, file.c helpers); message catalogues, "
                           "terminal descriptions and the C++ type list are not library inputs")
    r9(rep)
    r10(rep)
    r11(rep)
    from . import nullsearch
    nullsearch.report(rep, "R8", ("lib.c", "archive.c", "foam.c", "buffer.c", "sexpr.c", "file.c", "emit.c", "fint.c"), floor=3)
    return rep
